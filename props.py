"""Per-property check specifications: which harness files are overlaid into which package of
/repo, which entry points are explored, with which bounds per tier. See DESIGN.md §5."""

GLOBAL_ASSUMPTIONS = [
    "int is 64 bit; allocation never fails; sequential consistency, race freedom between synchronisation points (data races are not detected)",
    "logging, metrics and tracing calls are no-ops; fmt/strconv formatting returns an opaque string/error",
    "solver answers are trusted (z3 5.1.0 primary; a sample of closing queries is re-decided by z3 4.8.12 and cvc5 1.0.3)",
    "the go/ssa construction of golang.org/x/tools v0.29.0 and this engine's instruction semantics (validated per run by replaying sampled paths natively)",
]

PROPS = {}

PROPS["C16"] = {
    "files": ["region/c16_compare.go"],
    "claim": "For every pair (triple) of well-formed region names up to L bytes — all byte values, all lengths, any number of commas "
             "in the start key — sign(region.Compare(a,b)) equals the lexicographic order of (table, start key, id); Compare is "
             "antisymmetric, returns 0 only on identical names, is transitive; first regions and lookup search keys sort as the "
             "statement says. Decided by the solver on every path of the real Compare/findCommaFromEnd."
             " Also: fixed table, start keys of 8/9 (thorough 16/17) arbitrary bytes (compare_long_keys).",
    "outside": "names longer than L bytes (compare_long_keys: fixed table 't', start keys of KL-1 / KL arbitrary bytes, one-digit ids); malformed names (fewer than two commas: documented panic); ids containing a comma",
    "assumptions": ["names are well-formed: table and id non-empty, at least two commas, no comma in table or id"],
    "jobs": [
        {"name": "compare_oracle", "pkg": "region", "entry": "VerifCompareOracle", "reach": ["compared"],
         "params": {"quick": {"L": 7}, "thorough": {"L": 11}}},
        {"name": "compare_long_keys", "pkg": "region", "entry": "VerifCompareLongKeys", "reach": ["compared-long"],
         "params": {"quick": {"KL": 9}, "thorough": {"KL": 17}}},
        {"name": "compare_test_vectors", "pkg": "region", "entry": "VerifCompareTestVectors", "reach": ["vectors"], "sample_pass": 1,
         "params": {"quick": {}, "thorough": {}}},
        {"name": "compare_antisym", "pkg": "region", "entry": "VerifCompareAntisym",
         "params": {"quick": {"L": 6}, "thorough": {"L": 8}}},
        {"name": "compare_trans", "pkg": "region", "entry": "VerifCompareTrans", "reach": ["chain"],
         "params": {"quick": {"L": 5}, "thorough": {"L": 6}}},
        {"name": "compare_first_region", "pkg": "region", "entry": "VerifCompareFirstRegion",
         "reach": ["first-vs-later", "first-vs-smaller-table", "search-key"],
         "params": {"quick": {"L": 6}, "thorough": {"L": 8}}},
    ],
}

RECV_STUBS = {"google.golang.org/protobuf/proto.Unmarshal": "github.com/tsuna/gohbase/region.vUnmarshal"}

PROPS["C11"] = {
    "files": ["hrpc/c11_cells.go", "region/fakes.go", "region/c11_receive.go", "region/c15_compressor.go", "region/c11_info.go",
              "root/fakes.go", "root/c08_cache.go", "root/c06_scanner.go", "root/c11_scanresp.go"],
    "claim": "No byte string up to N bytes in the position of a cellblock, and no structurally valid Get/Mutate/Scan response whose "
             "counts disagree with the data, makes the cell decoders panic, read beyond the received bytes or return a cell that is "
             "not fully inside the buffer.",
    "outside": "buffers longer than N; allocation size from a huge declared count (bounded by MAXCELLS); protobuf-go's own decoder",
    "assumptions": ["declared cell counts <= MAXCELLS (allocation size is environment dependent and outside the claim)"],
    "jobs": [
        {"name": "cell_parser", "pkg": "hrpc", "entry": "VerifCellParser", "reach": ["decoded"],
         "params": {"quick": {"N": 28}, "thorough": {"N": 40}}},
        {"name": "cell_test_vectors", "pkg": "hrpc", "entry": "VerifCellTestVectors", "reach": ["vectors"], "sample_pass": 1,
         "params": {"quick": {}, "thorough": {}}},
        {"name": "cell_parser_slack", "pkg": "hrpc", "entry": "VerifCellParserSlack", "reach": ["decoded"],
         "params": {"quick": {"N": 26, "X": 8}, "thorough": {"N": 32, "X": 16}}},
        {"name": "deserialize_blocks", "pkg": "hrpc", "entry": "VerifDeserializeBlocks", "reach": ["decoded"],
         "params": {"quick": {"N": 44, "MAXCELLS": 2}, "thorough": {"N": 66, "MAXCELLS": 3}}},
        {"name": "get_mutate_deserialize", "pkg": "hrpc", "entry": "VerifGetMutateDeserialize", "reach": ["decoded"],
         "params": {"quick": {"N": 24, "MAXCELLS": 2}, "thorough": {"N": 44, "MAXCELLS": 2}}},
        {"name": "scan_deserialize", "pkg": "hrpc", "entry": "VerifScanDeserialize", "reach": ["decoded"],
         "params": {"quick": {"N": 24, "R": 2, "MAXCELLS": 1}, "thorough": {"N": 44, "R": 3, "MAXCELLS": 2}}},
        {"name": "receive_get", "pkg": "region", "entry": "VerifReceiveGet", "stubs": RECV_STUBS, "reach": ["answered", "left-registered"],
         "params": {"quick": {"N": 26, "MAXCELLS": 1}, "thorough": {"N": 52, "MAXCELLS": 2}}},
        {"name": "receive_mutate", "pkg": "region", "entry": "VerifReceiveMutate", "stubs": RECV_STUBS, "reach": ["answered", "left-registered"],
         "params": {"quick": {"N": 26, "MAXCELLS": 1}, "thorough": {"N": 52, "MAXCELLS": 2}}},
        {"name": "receive_scan", "pkg": "region", "entry": "VerifReceiveScan", "stubs": RECV_STUBS, "reach": ["answered", "left-registered"],
         "params": {"quick": {"N": 26, "MAXCELLS": 1}, "thorough": {"N": 30, "MAXCELLS": 1}}},
        {"name": "decompress_arbitrary", "timeout_s": {"quick": 600, "thorough": 2400}, "pkg": "region", "entry": "VerifDecompressArbitrary", "reach": ["accepted"],
         "params": {"quick": {"ENC": 2, "N": 14}, "thorough": {"ENC": 2, "N": 18}}},
        {"name": "odd_scan_responses", "steps": 60000, "pkg": "root", "entry": "VerifOddScanResponses", "reach": ["ended"],
         "params": {"quick": {"RESP": 1, "NROWS": 2}, "thorough": {"RESP": 2, "NROWS": 2}}},
        {"name": "parse_region_info", "pkg": "region", "entry": "VerifParseRegionInfo", "stubs": RECV_STUBS, "reach": ["parsed"],
         "params": {"quick": {}, "thorough": {}}},
        {"name": "receive_multi_dispatch", "pkg": "region", "entry": "VerifReceiveMulti", "stubs": RECV_STUBS, "reach": ["answered", "left-registered"],
         "params": {"quick": {"CELLS": 0, "N": 0, "R": 2, "A": 1, "MAXCELLS": 1, "CALLS3": 1}, "thorough": {"CELLS": 0, "N": 0, "R": 2, "A": 2, "MAXCELLS": 1, "CALLS3": 1}}},
        {"name": "receive_multi_cells", "pkg": "region", "entry": "VerifReceiveMulti", "stubs": RECV_STUBS, "reach": ["answered", "left-registered"],
         "params": {"quick": {"CELLS": 1, "N": 26, "R": 0, "A": 0, "MAXCELLS": 1, "CALLS3": 0}, "thorough": {"CELLS": 1, "N": 34, "R": 0, "A": 0, "MAXCELLS": 1, "CALLS3": 1}}},
    ],
}

PROPS["C10"] = {
    "files": ["hrpc/c10_roundtrip.go", "hrpc/c10_encodings.go", "hrpc/c05_fields.go"],
    "claim": "Every cell with row/family/qualifier/value up to F bytes each (all byte values, all lengths incl. empty), any 64-bit "
             "timestamp and any type byte, appended to a buffer with arbitrary prior content, decodes by the client's decoder and by "
             "an independent KeyValue decoder to the identical fields, consuming exactly cellblockLen bytes; prior content untouched.",
    "outside": "fields longer than F bytes other than the documented limits (the limits themselves — row of 65535 bytes, family of 255 bytes — are checked with symbolic bytes at the field ends only); rows >= 64 KiB and families >= 256 bytes (rejected by HBase; the length fields wrap)",
    "assumptions": [],
    "jobs": [
        {"name": "cell_types", "pkg": "hrpc", "entry": "VerifCellRoundTrip", "reach": ["roundtrip"],
         "params": {"quick": {"F": 1, "P": 0, "PX": 0}, "thorough": {"F": 1, "P": 0, "PX": 0}}},
        {"name": "cell_roundtrip", "pkg": "hrpc", "entry": "VerifCellRoundTrip", "reach": ["roundtrip"], "timeout_s": {"quick": 300, "thorough": 3000},
         "params": {"quick": {"F": 3, "P": 2, "PX": 2}, "thorough": {"F": 4, "P": 2, "PX": 40}}},
        {"name": "cell_boundary", "steps": 60000000, "pkg": "hrpc", "entry": "VerifCellBoundary", "reach": ["boundary"], "sample_pass": 1,
         "params": {"quick": {"ROW": 65535, "FAM": 255, "ALLOC": 70000}, "thorough": {"ROW": 65535, "FAM": 255, "ALLOC": 70000}}},
        {"name": "mutate_fields", "pkg": "hrpc", "entry": "VerifMutateFields", "reach": ["mutate"], "params": {"quick": {}, "thorough": {}}},
        {"name": "two_encodings", "pkg": "hrpc", "entry": "VerifTwoEncodings", "reach": ["compared"], "native_retries": 12,
         "params": {"quick": {"FAMS": 2, "QUALS": 1}, "thorough": {"FAMS": 2, "QUALS": 2}}},
    ],
}

PROPS["C15"] = {
    "files": ["region/fakes.go", "region/c15_compressor.go"],
    "claim": "With an abstract lossless codec (nothing assumed but Decode(Encode(x)) == x): every payload of up to BUFS buffers x S bytes, "
             "for chunk size CHUNK (below, equal to and above the payload), is written by compressCellblocks as one Hadoop block whose "
             "chunks hold exactly ChunkLen bytes except the last, and decompressCellblocks returns the identical bytes; every conforming "
             "server stream of up to B blocks x C chunks decompresses to the concatenated payload; a stream truncated inside a block "
             "yields an error; arbitrary bytes never panic or spin."
             " Also: two concurrent senders through one compressor each write the compressed form of their own cells.",
    "outside": "golang/snappy itself and the real chunk size 218421 (the chunking arithmetic is checked for small symbolic chunk sizes); "
               "corruptions that no implementation can detect (snappy blocks carry no checksum; a multi-block stream cut at a block "
               "boundary is a valid shorter stream); payloads beyond the bound; allocations beyond ALLOC bytes",
    "assumptions": ["codec contract: Encode output arbitrary (<= ENC bytes), Decode inverts Encode on its outputs and is arbitrary elsewhere",
                    "allocation sizes taken from the wire are bounded by ALLOC (larger ones are outside the claim)"],
    "jobs": [
        {"name": "compress_roundtrip", "pkg": "region", "entry": "VerifCompressRoundTrip", "reach": ["roundtrip"],
         "params": {"quick": {"CHUNK": 2, "ENC": 3, "BUFS": 2, "S": 3}, "thorough": {"CHUNK": 2, "ENC": 3, "BUFS": 3, "S": 3}}},
        {"name": "compress_expanding", "pkg": "region", "entry": "VerifCompressExpanding", "reach": ["roundtrip"],
         "params": {"quick": {"CHUNK": 2, "ENC": 48, "BUFS": 1, "S": 3}, "thorough": {"CHUNK": 2, "ENC": 48, "BUFS": 2, "S": 3}}},
        {"name": "compress_roundtrip_bigchunk", "pkg": "region", "entry": "VerifCompressRoundTrip", "reach": ["roundtrip"],
         "params": {"quick": {"CHUNK": 16, "ENC": 2, "BUFS": 2, "S": 3}, "thorough": {"CHUNK": 6, "ENC": 3, "BUFS": 3, "S": 4}}},
        {"name": "decompress_conforming", "pkg": "region", "entry": "VerifDecompressConforming", "reach": ["conforming", "truncated"],
         "params": {"quick": {"CHUNK": 1, "ENC": 2, "B": 2, "C": 1, "S": 2}, "thorough": {"CHUNK": 1, "ENC": 3, "B": 2, "C": 2, "S": 2}}},
        {"name": "decompress_arbitrary", "timeout_s": {"quick": 600, "thorough": 2400}, "pkg": "region", "entry": "VerifDecompressArbitrary", "reach": ["accepted"],
         "params": {"quick": {"ENC": 2, "N": 14}, "thorough": {"ENC": 2, "N": 18}}},
        {"name": "decompress_twice", "pkg": "region", "entry": "VerifDecompressTwice", "reach": ["twice"],
         "params": {"quick": {"S": 3}, "thorough": {"S": 5}}},
    ],
}

PROPS["C08"] = {
    "files": ["root/fakes.go", "root/c08_cache.go"],
    "claim": "One inductive step: from EVERY cache state of K regions that satisfies the invariant (distinct names, no two regions of one "
             "table intersect; tables t / tt / n:t, start and stop keys of up to KL arbitrary bytes, empty stop = unbounded, any ids), "
             "put(new region) and del(region) executed on the real keyRegionCache and the real B+tree agree with an interval oracle: "
             "replaced iff not cached by name and nothing overlapped is newer; then exactly the overlapping regions are evicted and "
             "marked dead and the new one cached; otherwise cache unchanged and nothing marked dead; invariant preserved. Covers "
             "histories of any length that stay within K live regions.",
    "outside": "more than K cached regions at the moment of the operation; keys longer than KL bytes (1 byte in the quick tier; 2 bytes in the thorough-only job cache_put_longkeys); B-tree page splits (>32 entries)",
    "assumptions": ["pre-states satisfy the representation invariant (they are built directly in the tree, sorted by the tree itself)"],
    "jobs": [
        {"name": "cache_put", "pkg": "root", "entry": "VerifCachePut", "reach": ["replaced", "rejected", "already-cached"],
         "params": {"quick": {"K": 2, "KL": 1, "T": 2}, "thorough": {"K": 3, "KL": 1, "T": 3}}},
        {"name": "cache_put_longkeys", "pkg": "root", "entry": "VerifCachePut", "reach": ["replaced", "rejected", "already-cached"],
         "params": {"thorough": {"K": 2, "KL": 2, "T": 1}}},
        {"name": "cache_put_namespace", "pkg": "root", "entry": "VerifCachePutNamespace", "reach": ["replaced", "rejected", "already-cached"],
         "params": {"quick": {"K": 2, "KL": 1, "T": 2}, "thorough": {"K": 3, "KL": 1, "T": 2}}},
        {"name": "cache_put_concurrent", "pkg": "root", "entry": "VerifCachePutConcurrent", "reach": ["raced"],
         "preempts": {"quick": 2, "thorough": 3}, "params": {"quick": {"RACE": 1}, "thorough": {"RACE": 1}}},
        {"name": "cache_del", "pkg": "root", "entry": "VerifCacheDel", "reach": ["deleted"],
         "params": {"quick": {"K": 2, "KL": 1, "T": 2}, "thorough": {"K": 3, "KL": 1, "T": 2}}},
    ],
}

PROPS["C01"] = {
    "files": ["root/fakes.go", "root/c08_cache.go", "root/c01_routing.go", "root/c09_establish.go", "root/c01_meta.go", "region/fakes.go", "region/c11_info.go"],
    "native_files": ["root/c01_meta_native.go"],
    "native_cuts": [{"file": "rpc.go", "from": "func (c *client) SendRPC(", "to": "func (c *client) SendRPCOrig("}],
    "claim": "For every cache content of K non-overlapping regions (tables t / tt / n:t, arbitrary start/stop keys up to KL bytes, any "
             "discovery order, inserted through the real put) and every (table, key up to KEYL arbitrary bytes), getRegionFromCache "
             "returns the unique cached region whose [start, stop) contains the key and nil otherwise (so hbase:meta is consulted, never "
             "a neighbour or a same-prefixed table); every single-row request kind is then given that region, that region's client, and "
             "carries that region's name in its RegionSpecifier."
             " Also: two lookups at once return each caller its own region without racing (route_concurrent); 5..6 gets over two regions in every order are filed under their own region in the multi-request (multi_region_assignment); lookupAllRegions / CacheRegions list a table in hbase:meta and establish every region on its listed server (list_regions, cache_regions); tables of one namespace whose qualifiers end alike (n:t / n:xt) are kept apart (route_namespace_suffix).",
    "outside": "more than K cached regions; keys longer than KEYL bytes (in particular the 32 KiB search-key truncation); the protobuf wire "
               "encoding of the request structs (protobuf-go); the meta path is covered for one arbitrary meta row per lookup (meta_lookup)",
    "assumptions": ["cached regions do not overlap (C08 establishes that put preserves this)"],
    "jobs": [
        {"name": "route_from_cache", "pkg": "root", "entry": "VerifRouteFromCache", "reach": ["hit", "miss"],
         "params": {"quick": {"K": 2, "KL": 1, "T": 2, "KEYL": 2}, "thorough": {"K": 3, "KL": 1, "T": 3, "KEYL": 2}}},
        {"name": "route_from_cache_longkeys", "pkg": "root", "entry": "VerifRouteFromCache", "reach": ["hit", "miss"],
         "params": {"quick": {"K": 2, "KL": 2, "T": 1, "KEYL": 2}, "thorough": {"K": 2, "KL": 2, "T": 2, "KEYL": 3}}},
        {"name": "route_namespace_twin", "pkg": "root", "entry": "VerifRouteNamespaceTwin", "reach": ["hit", "miss"],
         "params": {"quick": {"K": 1, "KL": 1, "T": 2, "KEYL": 1}, "thorough": {"K": 2, "KL": 1, "T": 2, "KEYL": 2}}},
        {"name": "route_namespace_suffix", "pkg": "root", "entry": "VerifRouteNamespaceSuffix", "reach": ["hit", "miss"],
         "params": {"quick": {"K": 1, "KL": 1, "T": 2, "KEYL": 1}, "thorough": {"K": 2, "KL": 1, "T": 2, "KEYL": 2}}},
        {"name": "route_concurrent", "pkg": "root", "entry": "VerifRouteConcurrent", "reach": ["routed-concurrently"],
         "preempts": {"quick": 2, "thorough": 3}, "params": {"quick": {"RACE": 1}, "thorough": {"RACE": 1}}},
        {"name": "addressing", "pkg": "root", "entry": "VerifAddressing", "reach": ["addressed"],
         "params": {"quick": {"KL": 2, "KEYL": 3}, "thorough": {"KL": 3, "KEYL": 4}}},
        {"name": "cache_regions", "pkg": "root", "entry": "VerifCacheRegions", "reach": ["cached"], "steps": 40000,
         "stubs": {"(*github.com/tsuna/gohbase.client).SendRPC": "github.com/tsuna/gohbase.vMetaSendRPC",
                   "google.golang.org/protobuf/proto.Unmarshal": "github.com/tsuna/gohbase/region.vUnmarshal"},
         "preempts": {"quick": 1, "thorough": 2}, "params": {"quick": {"FAULTS": 0, "RACE": 1}, "thorough": {"FAULTS": 0, "RACE": 1}}},
        {"name": "list_regions", "pkg": "root", "entry": "VerifListRegions", "reach": ["listed"],
         "stubs": {"(*github.com/tsuna/gohbase.client).SendRPC": "github.com/tsuna/gohbase.vMetaSendRPC",
                   "google.golang.org/protobuf/proto.Unmarshal": "github.com/tsuna/gohbase/region.vUnmarshal"},
         "params": {"quick": {}, "thorough": {}}},
        {"name": "meta_lookup", "pkg": "root", "entry": "VerifMetaLookup", "reach": ["accepted", "rejected", "not-found"],
         "stubs": {"(*github.com/tsuna/gohbase.client).SendRPC": "github.com/tsuna/gohbase.vMetaSendRPC",
                   "google.golang.org/protobuf/proto.Unmarshal": "github.com/tsuna/gohbase/region.vUnmarshal"},
         "params": {"quick": {"T": 4, "KEYL": 2}, "thorough": {"T": 4, "KEYL": 3}}},
    ],
}

BATCH_STUBS = {"(*github.com/tsuna/gohbase.client).getRegionAndClientForRPC": "github.com/tsuna/gohbase.vBatchLocate"}
BATCH_FILES = ["root/fakes.go", "root/c08_cache.go", "root/c01_routing.go", "root/c07_sendbatch.go"]

BATCH_CUTS = [{"file": "rpc.go", "from": "func (c *client) getRegionAndClientForRPC(", "to": "func (c *client) getRegionAndClientForRPCOrig("}]

PROPS["C07"] = {
    "files": BATCH_FILES, "native_files": ["root/c07_sendbatch_native.go"], "native_cuts": BATCH_CUTS,
    "claim": "For every batch of 1..N puts over 2 regions on 1 or 2 servers, every outcome sequence per call over {success, fatal, "
             "retry-later, not-serving, connection-dead, silent} for up to TRIES attempts, re-location failing for any call in any retry "
             "round, and cancellation at any round: res[i] is the last outcome of batch[i] (or that call's own location / context error), "
             "a success is never overwritten, every slot ends with a response or an error, allOK iff all errors are nil."
             " Also: one call of the batch with a context of its own that ends before / while the batch is with the servers: no other call carries its context error, the success flag agrees with the slots (sendbatch_own_contexts).",
    "outside": "batches larger than N; more than TRIES attempts per call; the real region client below SendBatch (C03/C02)",
    "assumptions": ["(*client).getRegionAndClientForRPC is cut: it returns the region/client of the harness layout or fails",
                    "fake region clients answer synchronously inside QueueBatch"],
    "jobs": [
        {"name": "sendbatch_outcomes", "pkg": "root", "entry": "VerifSendBatch", "stubs": BATCH_STUBS, "reach": ["returned"],
         "params": {"quick": {"PROP": 7, "N": 2, "TRIES": 3, "LOOKUPFAIL": 0, "CANCEL": 0}, "thorough": {"PROP": 7, "N": 3, "TRIES": 3, "LOOKUPFAIL": 0, "CANCEL": 0}}},
        {"name": "sendbatch_relocate_fails", "pkg": "root", "entry": "VerifSendBatch", "stubs": BATCH_STUBS, "reach": ["returned"],
         "params": {"quick": {"PROP": 7, "N": 2, "TRIES": 2, "LOOKUPFAIL": 1, "CANCEL": 0}, "thorough": {"PROP": 7, "N": 3, "TRIES": 2, "LOOKUPFAIL": 1, "CANCEL": 0}}},
        {"name": "sendbatch_own_contexts", "pkg": "root", "entry": "VerifSendBatchOwnContexts", "stubs": BATCH_STUBS, "reach": ["returned", "own-context-done-before"], "native_retries": 30,
         "preempts": {"quick": 1, "thorough": 2},
         "params": {"quick": {"PROP": 7, "N": 2, "TRIES": 2, "LOOKUPFAIL": 0, "CANCEL": 0}, "thorough": {"PROP": 7, "N": 2, "TRIES": 3, "LOOKUPFAIL": 0, "CANCEL": 0}}},
        {"name": "sendbatch_cancel", "pkg": "root", "entry": "VerifSendBatch", "stubs": BATCH_STUBS, "reach": ["returned"], "native_retries": 30,
         "preempts": {"quick": 1, "thorough": 1},
         "params": {"quick": {"PROP": 7, "N": 2, "TRIES": 2, "LOOKUPFAIL": 0, "CANCEL": 1}, "thorough": {"PROP": 7, "N": 2, "TRIES": 2, "LOOKUPFAIL": 1, "CANCEL": 1}}},
    ],
}

PROPS["C12"] = {
    "files": BATCH_FILES + ["region/fakes.go", "region/c02_correlation.go", "region/c15_compressor.go"], "native_files": ["root/c07_sendbatch_native.go"], "native_cuts": BATCH_CUTS,
    "claim": "For every batch of 1..N puts over 2 regions on 1 or 2 servers and every per-call outcome sequence (as C07): a batch that "
             "mixes tables, repeats a call or contains a non-batchable call at any position is rejected as a whole, nothing is sent and "
             "every slot carries an error; otherwise every call is sent to the server hosting its region, calls of one region are "
             "presented in batch order within each QueueBatch, a call is sent again only after a retryable outcome and never after its "
             "success was received; at the region level a conforming multi-response (also one for a request from which a cancelled call "
             "was dropped) is accepted and dispatched, so that no needless retry re-executes calls.",
    "outside": "batches larger than N; the order in which the region client writes a region's actions into the multi-request is "
               "checked at the region level (C05/C02 harnesses), not here",
    "assumptions": ["(*client).getRegionAndClientForRPC is cut (as C07)"],
    "jobs": [
        {"name": "sendbatch_discipline", "pkg": "root", "entry": "VerifSendBatch", "stubs": BATCH_STUBS, "reach": ["returned"],
         "params": {"quick": {"PROP": 12, "N": 3, "TRIES": 2, "LOOKUPFAIL": 0, "CANCEL": 0}, "thorough": {"PROP": 12, "N": 3, "TRIES": 3, "LOOKUPFAIL": 0, "CANCEL": 0}}},
        {"name": "multi_response_accepted", "pkg": "region", "entry": "VerifMultiCorrelation", "stubs": RECV_STUBS, "reach": ["correlated"], "native_retries": 10,
         "params": {"quick": {"CALLS": 2, "CELLS": 1, "protoMax": 1, "protoFixed": 1}, "thorough": {"CALLS": 2, "CELLS": 2, "protoMax": 1, "protoFixed": 1}}},
        {"name": "sendbatch_invalid", "pkg": "root", "entry": "VerifSendBatchInvalid", "stubs": BATCH_STUBS, "reach": ["rejected"],
         "params": {"quick": {"PROP": 12, "N": 2, "TRIES": 2, "LOOKUPFAIL": 0, "CANCEL": 0}, "thorough": {"PROP": 12, "N": 3, "TRIES": 2, "LOOKUPFAIL": 0, "CANCEL": 0}}},
    ],
}

SCAN_FILES = ["root/fakes.go", "root/c08_cache.go", "root/c06_scanner.go"]

PROPS["C06"] = {
    "files": SCAN_FILES,
    "claim": "Against a model HBase (ROWS rows with symbolic one-byte keys and 1..2 cells, REGIONS regions with symbolic boundaries, "
             "symbolic [start, stop) incl. empty bounds and bounds equal to boundaries, forward and reversed, with and without partial "
             "results; per response a symbolic number of results, symbolic cuts of rows into partial fragments, heart-beats, an early "
             "'no more results'), the real scanner returns until io.EOF exactly the rows in range, in scan order, each once and with "
             "all of its cells."
             " Also: a server that numbers scanners from 0; reversed scans over keys and region boundaries that end in zero bytes.",
    "outside": "more rows / regions / responses than the bounds; keys longer than one byte (the reversed 'closest row before' "
               "approximation with 8 x 0xff is exercised only for one-byte boundaries); the renew goroutine; scan metrics",
    "assumptions": ["the model server implements HBase's scan protocol as described in the harness (open / continue / close, "
                    "more_results_in_region, more_results, partial flags)"],
    "jobs": [
        {"name": "scan_forward", "pkg": "root", "entry": "VerifScan", "reach": ["scanned"],
         "params": {"quick": {"ROWS": 2, "REGIONS": 2, "RESP": 3, "NROWS": 2, "REVERSED": 0, "KEYL": 1}, "thorough": {"ROWS": 3, "REGIONS": 2, "RESP": 3, "NROWS": 2, "REVERSED": 0, "KEYL": 1}}},
        {"name": "scan_reversed", "pkg": "root", "entry": "VerifScan", "reach": ["scanned"],
         "params": {"quick": {"ROWS": 2, "REGIONS": 2, "RESP": 3, "NROWS": 2, "REVERSED": 1, "KEYL": 1}, "thorough": {"ROWS": 3, "REGIONS": 2, "RESP": 3, "NROWS": 2, "REVERSED": 1, "KEYL": 1}}},
        {"name": "scan_forward_id0", "pkg": "root", "entry": "VerifScanID0", "reach": ["scanned"],
         "params": {"quick": {"ROWS": 2, "REGIONS": 2, "RESP": 2, "NROWS": 2, "REVERSED": 0, "KEYL": 1}, "thorough": {"ROWS": 2, "REGIONS": 2, "RESP": 3, "NROWS": 2, "REVERSED": 0, "KEYL": 1}}},
        {"name": "scan_reversed_zero_keys", "pkg": "root", "entry": "VerifScanZeroKeys", "reach": ["scanned"],
         "params": {"quick": {"ROWS": 1, "REGIONS": 2, "RESP": 1, "NROWS": 2, "REVERSED": 1, "KEYL": 1}, "thorough": {"ROWS": 2, "REGIONS": 2, "RESP": 1, "NROWS": 2, "REVERSED": 1, "KEYL": 1}}},
        {"name": "scan_reversed_longkeys", "pkg": "root", "entry": "VerifScan", "reach": ["scanned"],
         "params": {"quick": {"ROWS": 1, "REGIONS": 2, "RESP": 2, "NROWS": 2, "REVERSED": 1, "KEYL": 2}, "thorough": {"ROWS": 2, "REGIONS": 2, "RESP": 2, "NROWS": 2, "REVERSED": 1, "KEYL": 2}}},
        {"name": "scan_forward_longkeys", "pkg": "root", "entry": "VerifScan", "reach": ["scanned"],
         "params": {"quick": {"ROWS": 1, "REGIONS": 2, "RESP": 2, "NROWS": 2, "REVERSED": 0, "KEYL": 2}, "thorough": {"ROWS": 2, "REGIONS": 2, "RESP": 2, "NROWS": 2, "REVERSED": 0, "KEYL": 2}}},
    ],
}

PROPS["C14"] = {
    "files": SCAN_FILES,
    "claim": "Against the model HBase of C06 (which also tracks the region scanners it has open): a scan ended at any point — run to "
             "exhaustion, Close() after j Next calls, a non-retryable error on the i-th request, cancellation before the j-th Next, the "
             "server declaring no more results while a region scanner is open — reports the error / cancellation exactly once and "
             "io.EOF from then on, Close is idempotent, and after all spawned goroutines have run the server has no scanner of this scan "
             "left open."
             " Also: a request error followed by cancellation; cancellation while a request is outstanding, then Next again; a request error comes together with the part of the row already assembled; the scan context ends either by cancellation or by a deadline that passes (close requests created after the expiry still reach the server).",
    "outside": "a deadline passing while an earlier close request is still waiting to be scheduled; lease expiry on the server; the renew loop; scans created with the internal CloseScanner option over more than one response",
    "assumptions": ["model server as in C06"],
    "jobs": [
        {"name": "scan_endings_forward", "pkg": "root", "entry": "VerifScanEndings", "reach": ["ended", "closed-early", "cancelled", "expired", "failed", "failed-then-cancelled", "error-with-partial-row"],
         "params": {"quick": {"ROWS": 2, "REGIONS": 2, "RESP": 3, "NROWS": 2, "REVERSED": 0, "KEYL": 1}, "thorough": {"ROWS": 3, "REGIONS": 2, "RESP": 3, "NROWS": 2, "REVERSED": 0, "KEYL": 1}}},
        {"name": "scan_endings_reversed", "pkg": "root", "entry": "VerifScanEndings", "reach": ["ended", "closed-early", "cancelled", "expired", "failed", "failed-then-cancelled", "error-with-partial-row"],
         "params": {"quick": {"ROWS": 2, "REGIONS": 2, "RESP": 2, "NROWS": 2, "REVERSED": 1, "KEYL": 1}, "thorough": {"ROWS": 3, "REGIONS": 2, "RESP": 3, "NROWS": 2, "REVERSED": 1, "KEYL": 1}}},
        {"name": "scan_cancel_outstanding", "steps": 60000, "pkg": "root", "entry": "VerifCancelScan", "reach": ["cancelled"], "watchdog": 20,
         "params": {"quick": {"NROWS": 1}, "thorough": {"NROWS": 1}}},
    ],
}

PROPS["C18"] = {
    "files": ["region/fakes.go", "region/c18_inflight.go", "region/c20_dialonce.go"],
    "claim": "For 1..CALLS requests on one connection, every assignment of {answered before Write returns, answered before the next "
             "request, answered late, never answered} to the requests: when the connection is quiescent the in-flight counter equals the "
             "number of written-and-unanswered requests and the read deadline is armed iff that number is > 0 (so a silent server is "
             "detected by the read timeout of the last request, and an idle connection is never torn down by it)."
             " Also: two senders overtaken by their responses at once; a connection dialled under a deadline and then idle carries no read or write deadline.",
    "outside": "the kernel's deadline behaviour and wall-clock latency; more than CALLS requests; multi-requests (counted like single calls)",
    "assumptions": ["responses are processed by receive() one at a time (single reader goroutine)",
                    "proto.Unmarshal is stubbed by the harness' decoding seam (native replay uses the real decoder on hand-encoded frames)"],
    "jobs": [
        {"name": "inflight", "timeout_s": {"quick": 600, "thorough": 3000}, "pkg": "region", "entry": "VerifInFlight", "stubs": RECV_STUBS, "reach": ["idle", "waiting"],
         "params": {"quick": {"CALLS": 2, "protoMax": 1, "protoFixed": 1, "TIMEND": 1}, "thorough": {"CALLS": 3, "protoMax": 1, "protoFixed": 1, "TIMEND": 1}}},
        {"name": "inflight_two_overtaken", "pkg": "region", "entry": "VerifInFlightTwoOvertaken", "stubs": RECV_STUBS, "reach": ["idle-after-overtaking"],
         "preempts": {"quick": 3, "thorough": 4}, "params": {"quick": {"RACE": 1, "protoMax": 1, "protoFixed": 1}, "thorough": {"RACE": 1, "protoMax": 1, "protoFixed": 1}}},
        {"name": "dial_then_idle", "pkg": "region", "entry": "VerifDialIdle", "reach": ["idle-after-dial", "dial-deadline"],
         "params": {"quick": {"protoMax": 1, "protoFixed": 1}, "thorough": {"protoMax": 1, "protoFixed": 1}}},
        {"name": "inflight_concurrent", "pkg": "region", "entry": "VerifInFlightConcurrent", "stubs": RECV_STUBS, "reach": ["waiting"],
         "preempts": {"quick": 2, "thorough": 3}, "params": {"quick": {"RACE": 1}, "thorough": {"RACE": 1}}},
    ],
}

PROPS["C03"] = {
    "files": ["region/fakes.go", "region/c18_inflight.go", "region/c03_failure.go"],
    "claim": "A real region client (NewClient + Dial, batching and reader goroutines) on a connection whose k-th operation fails "
             "(k = 1..K symbolic over Read / Write / SetReadDeadline / SetWriteDeadline, failing writes with or without a partial "
             "write) or that is closed externally before / between / after the requests, with one unbatched call and a batch of two "
             "queued on it and a silent server, under every interleaving within the pre-emption bound: every request is completed "
             "exactly once, with a ServerError; no client goroutine is left; later requests are refused at once with ErrClientClosed."
             " Also: a sender blocked inside Write when the connection fails is released and both requests completed (failure_blocked_writer); the read time-out is armed whenever a request is outstanding (read_timeout_armed).",
    "outside": "more than K operations before the fault; data races between synchronisation points; responses arriving concurrently "
               "with the failure (C02/C18 cover response handling); contexts that end before the failure",
    "assumptions": ["pre-emption only at synchronisation points (channel ops, mutexes, sync.Once, atomics, connection calls); at most "
                    "the stated number of pre-emptive switches per run"],
    "jobs": [
        {"name": "conn_failure", "pkg": "region", "entry": "VerifConnFailure", "reach": ["failed"], "no_native": False, "native_retries": 3,
         "preempts": {"quick": 1, "thorough": 2}, "params": {"quick": {"RACE": 1, "K": 8, "protoMax": 1, "protoFixed": 1}, "thorough": {"RACE": 1, "K": 12, "protoMax": 1, "protoFixed": 1}}},
        {"name": "failure_concurrent_reader", "pkg": "region", "entry": "VerifFailureConcurrentReader", "stubs": RECV_STUBS, "reach": ["completed"],
         "preempts": {"quick": 2, "thorough": 3}, "params": {"quick": {"RACE": 1, "K": 4, "protoMax": 1, "protoFixed": 1}, "thorough": {"RACE": 1, "K": 5, "protoMax": 1, "protoFixed": 1}}},
        {"name": "failure_big_batch", "pkg": "region", "entry": "VerifFailureBigBatch", "reach": ["big-batch"],
         "preempts": {"quick": 2, "thorough": 3}, "params": {"quick": {"RACE": 1, "protoMax": 1, "protoFixed": 1}, "thorough": {"RACE": 1, "protoMax": 1, "protoFixed": 1}}},
        {"name": "failure_blocked_writer", "pkg": "region", "entry": "VerifFailureBlockedWriter", "reach": ["writer-released"],
         "preempts": {"quick": 1, "thorough": 2}, "params": {"quick": {"RACE": 1, "protoMax": 1, "protoFixed": 1}, "thorough": {"RACE": 1, "protoMax": 1, "protoFixed": 1}}},
        # failure "by read timeout" presupposes that the timeout is armed whenever a request is outstanding (shared with C18)
        {"name": "read_timeout_armed", "pkg": "region", "entry": "VerifInFlightConcurrent", "stubs": RECV_STUBS, "reach": ["waiting"],
         "preempts": {"quick": 2, "thorough": 3}, "params": {"quick": {"RACE": 1}, "thorough": {"RACE": 1}}},
        {"name": "failure_with_responses", "pkg": "region", "entry": "VerifFailureWithResponses", "stubs": RECV_STUBS, "reach": ["completed"],
         "params": {"quick": {"K": 6, "protoMax": 1, "protoFixed": 1}, "thorough": {"K": 8, "protoMax": 1, "protoFixed": 1}}},
    ],
}

PROPS["C02"] = {
    "files": ["region/fakes.go", "region/c02_correlation.go", "region/c15_compressor.go"],
    "claim": "CALLS single gets/puts sent on one connection and answered in every order, each response with 0..CELLS cells tagged "
             "with its request: every caller receives exactly the response and cells produced for its request. CALLS calls grouped into "
             "one multi-request over two regions (every grouping), answered with region results in request order, results inside a "
             "region in every order, any action as an exception, any region as a region exception, cells in the trailing cellblock in "
             "response order: each call receives the result carrying its index and exactly its cells. Concurrent registration yields "
             "distinct call ids under every interleaving."
             " Region-level exceptions of two regions are delivered each to the calls of its own region. One caller of the multi may give up before the flush (dropped from the request) or between send and decode (nothing claimed for it; the others still get their own results and cells).",
    "outside": "more than CALLS calls; non-conforming responses (C11); flush timing of the batching goroutine (grouping is quantified "
               "directly); true parallel memory effects",
    "assumptions": ["responses are handled one at a time by the single reader goroutine",
                    "proto.Unmarshal is stubbed by the decoding seam; native replay decodes the hand-encoded frames with protobuf-go"],
    "jobs": [
        {"name": "callid_correlation", "pkg": "region", "entry": "VerifCallIDCorrelation", "stubs": RECV_STUBS, "reach": ["correlated"],
         "params": {"quick": {"CALLS": 2, "CELLS": 1, "protoMax": 1, "protoFixed": 1}, "thorough": {"CALLS": 3, "CELLS": 2, "protoMax": 1, "protoFixed": 1}}},
        {"name": "multi_correlation", "pkg": "region", "entry": "VerifMultiCorrelation", "stubs": RECV_STUBS, "reach": ["correlated", "gave-up-after-send"], "native_retries": 10,
         "params": {"quick": {"CALLS": 2, "CELLS": 1, "protoMax": 1, "protoFixed": 1}, "thorough": {"CALLS": 2, "CELLS": 2, "protoMax": 1, "protoFixed": 1}}},
        {"name": "compressed_cells", "pkg": "region", "entry": "VerifCompressedCells", "stubs": RECV_STUBS, "reach": ["held"], "native_retries": 5,
         "params": {"quick": {"protoMax": 1, "protoFixed": 1}, "thorough": {"protoMax": 1, "protoFixed": 1}}},
        {"name": "multi_reuse", "pkg": "region", "entry": "VerifMultiReuse", "stubs": RECV_STUBS, "reach": ["reused"], "native_retries": 6,
         "params": {"quick": {"protoMax": 1, "protoFixed": 1}, "thorough": {"protoMax": 1, "protoFixed": 1}}},
        {"name": "multi_not_shared", "pkg": "region", "entry": "VerifMultiNotShared", "stubs": RECV_STUBS, "reach": ["distinct"], "native_retries": 3,
         "params": {"quick": {"protoMax": 1, "protoFixed": 1}, "thorough": {"protoMax": 1, "protoFixed": 1}}},
        {"name": "concurrent_register", "pkg": "region", "entry": "VerifConcurrentRegister", "reach": ["registered"],
         "preempts": {"quick": 2, "thorough": 3}, "params": {"quick": {"RACE": 1}, "thorough": {"RACE": 1}}},
    ],
}

FRAME_STUBS = {"google.golang.org/protobuf/proto.Size": "github.com/tsuna/gohbase/region.vSize",
               "(google.golang.org/protobuf/proto.MarshalOptions).MarshalAppend": "github.com/tsuna/gohbase/region.vMarshalAppend"}

# C15: concurrent use of the one compressor of a connection (needs the frame-level stubs of C05)
PROPS["C15"]["files"] = ["region/fakes.go", "region/c02_correlation.go", "region/c15_compressor.go", "region/c05_frames.go"]
PROPS["C15"]["jobs"].append(
    {"name": "compress_concurrent", "pkg": "region", "entry": "VerifCompressConcurrent", "stubs": FRAME_STUBS, "reach": ["two-compressing-senders"],
     "preempts": {"quick": 2, "thorough": 3}, "params": {"quick": {"RACE": 1}, "thorough": {"RACE": 1}}})

# C12: the batching goroutine of the region client (order, exactly once) - same harness as C05's queue_flush
PROPS["C12"]["files"] = PROPS["C12"]["files"] + ["region/c05_frames.go"]
PROPS["C12"]["jobs"].append(
    {"name": "queue_flush", "pkg": "region", "entry": "VerifQueueFlush", "stubs": FRAME_STUBS, "reach": ["flushed"], "max_ticks": 2,
     "preempts": {"quick": 1, "thorough": 2}, "params": {"quick": {"CALLS": 3, "RACE": 1}, "thorough": {"CALLS": 4, "RACE": 1}}})

# C01: the region a call is filed under inside a multi-request (needs the frame-level stubs of C05)
PROPS["C01"]["files"] = PROPS["C01"]["files"] + ["region/c02_correlation.go", "region/c15_compressor.go", "region/c05_frames.go"]
PROPS["C01"]["jobs"].append(
    {"name": "multi_region_assignment", "pkg": "region", "entry": "VerifMultiFrameGets", "stubs": FRAME_STUBS, "reach": ["multi"], "native_retries": 10,
     "params": {"quick": {"CALLS": 5}, "thorough": {"CALLS": 6}}})

PROPS["C05"] = {
    "files": ["region/fakes.go", "region/c02_correlation.go", "region/c15_compressor.go", "region/c05_frames.go",
              "hrpc/c10_roundtrip.go", "hrpc/c10_encodings.go", "hrpc/c05_fields.go"],
    "claim": "Frame level: every sequence of CALLS single calls (gets with / without priority, puts with 0..2 cells), with and without "
             "cellblock compression, and every multi-request of CALLS calls over two regions (every grouping, every map iteration "
             "order) is written as whole frames: length prefix = delimited header + delimited request + cellblocks; header carries "
             "the method, a call id unique on the connection and registered for that request, the priority iff > 0 (no leak through the "
             "header pool), cell_block_meta.length = trailing cellblock; request rows / region names / associated_cell_count match the "
             "calls; cellblocks follow the order of the actions; two concurrent senders on a non-TCP net.Conn never interleave frames; "
             "preamble and connection header first. The protobuf-struct content of each request kind is covered by C10/C01/C06."
             " Also: every option of Get / Scan / mutations is mapped to the request as the server reads it (get_fields, scan_fields, mutate_fields, time_options); a call re-sent after SetRegion names the new region; two compressing senders do not share buffers; the batching goroutine writes every queued call exactly once and in order whatever the flush timing (queue_flush).",
    "outside": "protobuf-go's wire encoding of the structs (a contract stub in the engine, the real encoder in native replay); kernel "
               "writev atomicity for TCP sockets; more than CALLS calls; scans and check-and-put frames (single-call path, same code)",
    "assumptions": ["proto.Size / MarshalAppend are a contract stub in the engine: fixed size, content = the message snapshot"],
    "jobs": [
        {"name": "single_frames", "timeout_s": {"quick": 600, "thorough": 2400}, "pkg": "region", "entry": "VerifSingleFrames", "stubs": FRAME_STUBS, "reach": ["frames"], "native_retries": 6,
         "params": {"quick": {"CALLS": 2}, "thorough": {"CALLS": 3}}},
        {"name": "get_fields", "pkg": "hrpc", "entry": "VerifGetFields", "reach": ["get"], "params": {"quick": {}, "thorough": {}}},
        {"name": "scan_fields", "pkg": "hrpc", "entry": "VerifScanFields", "reach": ["scan-open", "scan-continuation"], "params": {"quick": {}, "thorough": {}}},
        {"name": "mutate_fields", "pkg": "hrpc", "entry": "VerifMutateFields", "reach": ["mutate"], "params": {"quick": {}, "thorough": {}}},
        {"name": "time_options", "pkg": "hrpc", "entry": "VerifTimeOptions", "reach": ["times"], "params": {"quick": {}, "thorough": {}}},
        {"name": "resend_after_region_change", "pkg": "region", "entry": "VerifResend", "stubs": FRAME_STUBS, "reach": ["resent"],
         "params": {"quick": {}, "thorough": {}}},
        {"name": "multi_frame_gets", "pkg": "region", "entry": "VerifMultiFrameGets", "stubs": FRAME_STUBS, "reach": ["multi"], "native_retries": 10,
         "params": {"quick": {"CALLS": 5}, "thorough": {"CALLS": 6}}},
        {"name": "multi_frame", "pkg": "region", "entry": "VerifMultiFrame", "stubs": FRAME_STUBS, "reach": ["multi"], "native_retries": 10,
         "params": {"quick": {"CALLS": 3}, "thorough": {"CALLS": 4}}},
        {"name": "compress_concurrent", "pkg": "region", "entry": "VerifCompressConcurrent", "stubs": FRAME_STUBS, "reach": ["two-compressing-senders"],
         "preempts": {"quick": 2, "thorough": 3}, "params": {"quick": {"RACE": 1}, "thorough": {"RACE": 1}}},
        {"name": "queue_flush", "pkg": "region", "entry": "VerifQueueFlush", "stubs": FRAME_STUBS, "reach": ["flushed"], "max_ticks": 2,
         "preempts": {"quick": 1, "thorough": 2}, "params": {"quick": {"CALLS": 3, "RACE": 1}, "thorough": {"CALLS": 4, "RACE": 1}}},
        {"name": "concurrent_senders", "pkg": "region", "entry": "VerifConcurrentSenders", "stubs": FRAME_STUBS, "reach": ["two-senders"],
         "preempts": {"quick": 2, "thorough": 3}, "params": {"quick": {"RACE": 1}, "thorough": {"RACE": 1}}},
        {"name": "hello", "pkg": "region", "entry": "VerifHello", "reach": ["hello"], "params": {"quick": {"protoMax": 3}, "thorough": {"protoMax": 6}}},
    ],
}

PROPS["C20"] = {
    "files": ["root/fakes.go", "root/c08_cache.go", "root/c01_routing.go", "root/c09_establish.go", "root/c20_connections.go", "region/fakes.go", "region/c20_dialonce.go"],
    "native_files": ["root/c09_establish_native.go"], "native_cuts": [{"file": "rpc.go", "from": "func (c *client) lookupRegion(", "to": "func (c *client) lookupRegionOrig("}],
    "claim": "Every sequence of STEPS put / del / clientDown operations on the connection cache over two addresses and three regions: a "
             "put returns the connection held for the address unless it was declared dead (clientDown), opens one otherwise, and never "
             "crosses addresses. R regions of one address established concurrently by the real establishRegion (every interleaving "
             "within the bound) create one region client; later regions reuse it; another address gets its own. CALLERS concurrent Dial "
             "calls on a real region client dial once and all see that outcome."
             " Also: a connection the dialer hands out after the dial context expired is closed with its region client; two regions at one address share one real region client whatever the spelling of the address (six spellings).",
    "outside": "address aliasing (one server under two names); more than R regions / CALLERS callers; data races",
    "assumptions": ["fake region clients at the hrpc.RegionClient seam for the establisher harness (probe always answered)"],
    "jobs": [
        {"name": "client_cache_ops", "pkg": "root", "entry": "VerifClientCacheOps", "reach": ["reused", "declared-dead"],
         "params": {"quick": {"STEPS": 4}, "thorough": {"STEPS": 5}}},
        {"name": "probe_retry_later", "steps": 40000, "pkg": "root", "entry": "VerifProbeRetryLater", "reach": ["retried-later"],
         "stubs": {"(*github.com/tsuna/gohbase.client).lookupRegion": "github.com/tsuna/gohbase.vLookupRegion"},
         "params": {"quick": {"FAULTS": 0, "RACE": 1}, "thorough": {"FAULTS": 0, "RACE": 1}}},
        {"name": "establish_shared", "pkg": "root", "entry": "VerifEstablishShared", "reach": ["established"],
         "preempts": {"quick": 2, "thorough": 3}, "params": {"quick": {"RACE": 1, "R": 2}, "thorough": {"RACE": 1, "R": 3}}},
        {"name": "late_failure_report", "pkg": "root", "entry": "VerifLateFailureReport", "reach": ["late-report"],
         "preempts": {"quick": 1, "thorough": 2}, "params": {"quick": {"RACE": 1}, "thorough": {"RACE": 1}}},
        {"name": "shared_client_spellings", "pkg": "root", "entry": "VerifSharedClientSpellings", "reach": ["shared"], "params": {"quick": {}, "thorough": {}}},
        {"name": "dial_late_connection", "pkg": "region", "entry": "VerifDialLate", "reach": ["late-dial"],
         "preempts": {"quick": 2, "thorough": 3}, "params": {"quick": {"RACE": 1, "protoMax": 1, "protoFixed": 1}, "thorough": {"RACE": 1, "protoMax": 1, "protoFixed": 1}}},
        {"name": "dial_once", "pkg": "region", "entry": "VerifDialOnce", "reach": ["dialled"],
         "preempts": {"quick": 2, "thorough": 3}, "params": {"quick": {"RACE": 1, "CALLERS": 2, "protoMax": 1, "protoFixed": 1}, "thorough": {"RACE": 1, "CALLERS": 3, "protoMax": 1, "protoFixed": 1}}},
    ],
}

EST_STUBS = {"(*github.com/tsuna/gohbase.client).lookupRegion": "github.com/tsuna/gohbase.vLookupRegion"}
EST_FILES = ["root/fakes.go", "root/c08_cache.go", "root/c01_routing.go", "root/c09_establish.go"]
EST_CUTS = [{"file": "rpc.go", "from": "func (c *client) lookupRegion(", "to": "func (c *client) lookupRegionOrig("}]

PROPS["C09"] = {
    "files": EST_FILES, "native_files": ["root/c09_establish_native.go"], "native_cuts": EST_CUTS,
    "claim": "One outage of a cached region handled by the real establishRegion against a scripted cluster: for every script of up to "
             "FAULTS misbehaviours (meta: table gone / region replaced by a newer one; dial failure; probe answered not-serving, "
             "server-error or retry-later) followed by a stable cluster, with or without a known address: no panic (in particular no "
             "second MarkAvailable = close of nil channel), the establisher terminates, the region's waiters are released, no live "
             "cached region is left unavailable or without a connection, no goroutine is left."
             " Also: a region evicted (successor discovered) while its establisher is inside Dial or the probe: its waiters are released and the waiting request completes against the successor.",
    "outside": "data races other than the ones the engine's happens-before analysis sees on the explored schedules (RACE=1 jobs: vector "
               "clocks over mutex/RWMutex/channel/Once/WaitGroup/atomic/Pool/context/timer/go edges; unordered conflicting loads, stores and "
               "map operations in repository code are candidates, reported only when Go's own race detector confirms the same pair of "
               "functions in the natively compiled harness) - the engine explores sequentially consistent executions only, so weak-memory "
               "effects are outside; more than FAULTS faults per outage; more than two concurrent callers; real meta scans (lookupRegion is cut)",
    "assumptions": ["(*client).lookupRegion is cut (scripted hbase:meta / ZooKeeper)", "fake region clients; sleepAndIncreaseBackoff via the repository's own override hook"],
    "jobs": [
        {"name": "establish", "steps": 40000, "timeout_s": {"quick": 300, "thorough": 1500}, "pkg": "root", "entry": "VerifEstablish", "stubs": EST_STUBS, "reach": ["re-established", "replaced-or-gone"],
         "params": {"quick": {"FAULTS": 2}, "thorough": {"FAULTS": 3}}},
        {"name": "replacement_race", "steps": 40000, "pkg": "root", "entry": "VerifReplacementRace", "stubs": EST_STUBS, "reach": ["replaced-under-load"],
         "preempts": {"quick": 2, "thorough": 3}, "params": {"quick": {"FAULTS": 0, "RACE": 1}, "thorough": {"FAULTS": 0, "RACE": 1}}},
        {"name": "evicted_while_establishing", "steps": 40000, "pkg": "root", "entry": "VerifEvictedWhileEstablishing", "stubs": EST_STUBS, "reach": ["evicted"],
         "preempts": {"quick": 1, "thorough": 2}, "params": {"quick": {"FAULTS": 0, "RACE": 1}, "thorough": {"FAULTS": 1, "RACE": 1}}},
        {"name": "two_callers", "steps": 40000, "timeout_s": {"quick": 300, "thorough": 3000}, "pkg": "root", "entry": "VerifTwoCallers", "stubs": EST_STUBS, "reach": ["both-returned"],
         "preempts": {"quick": 1, "thorough": 1}, "params": {"quick": {"FAULTS": 1, "BUSY": 1, "SAME": 0, "RACE": 1}, "thorough": {"FAULTS": 2, "BUSY": 1, "SAME": 0, "RACE": 1}}},
        {"name": "two_callers_idle", "steps": 40000, "timeout_s": {"quick": 300, "thorough": 3000}, "pkg": "root", "entry": "VerifTwoCallers", "stubs": EST_STUBS, "reach": ["both-returned"],
         "preempts": {"quick": 1, "thorough": 1}, "params": {"quick": {"FAULTS": 1, "BUSY": 0, "SAME": 0, "RACE": 1}, "thorough": {"FAULTS": 2, "BUSY": 0, "SAME": 0, "RACE": 1}}},
        {"name": "concurrent_failure_reports", "pkg": "root", "entry": "VerifConcurrentFailureReports", "stubs": EST_STUBS, "reach": ["reported"],
         "preempts": {"quick": 2, "thorough": 3}, "params": {"quick": {"FAULTS": 0, "RACE": 1}, "thorough": {"FAULTS": 0, "RACE": 1}}},
        {"name": "two_callers_same_region", "steps": 40000, "timeout_s": {"thorough": 3000}, "pkg": "root", "entry": "VerifTwoCallers", "stubs": EST_STUBS, "reach": ["both-returned"],
         "preempts": {"thorough": 1}, "params": {"thorough": {"FAULTS": 1, "BUSY": 0, "SAME": 1}}},
    ],
}

PROPS["C04"] = {
    "files": EST_FILES + ["region/fakes.go", "region/c04_classify.go", "root/c04_api.go", "root/c17_backoff.go"], "native_files": ["root/c09_establish_native.go"], "native_cuts": EST_CUTS,
    "claim": "Safety part only. exceptionToError over EVERY class-name string up to L bytes maps the 12 listed classes (and "
             "java.io.IOException with its log-closed stack) to their retry class and every other name to a plain error. One request through SendRPC for a cached or unknown region, every script of up to FAULTS cluster "
             "misbehaviours (request answered not-serving / server-error / retry-later, dial failure, probe failures, hbase:meta "
             "listing a replacement region or no table) followed by a stable cluster: the request returns success, or TableNotFound "
             "when the table was removed, never a retryable error; afterwards no live cached region is unavailable. Every recovery step "
             "of establishRegion is covered by the C09 establish job."
             " Also: exceptions are classified by the class the server names, whatever the stack trace mentions; Get/Put/Delete/Append/Increment/CheckAndPut hand back what the server answered and an application error unchanged (public_api); every exit of establishRegion for scripts of 2..4 faults (establish_faults); the action exceptions of one multi-response are classified each on its own, e.g. a log-is-closed IOException next to a plain IOException in either order (classify_in_multi).",
    "outside": "NOT CLAIMED: the liveness statement for arbitrary finite fault sequences (only scripts of up to FAULTS faults are "
               "explored); administrative calls when the master moves; classification of exception class names (checked at the "
               "region level in C11's receive jobs for the listed classes)",
    "assumptions": ["(*client).lookupRegion is cut (scripted hbase:meta / ZooKeeper)", "fake region clients; back-off via the repository's override hook"],
    "jobs": [
        {"name": "lookup_retried", "steps": 40000, "pkg": "root", "entry": "VerifLookupPacing", "reach": ["paced"], "native_retries": 10, "preempts": {"quick": 1, "thorough": 2},
         "params": {"quick": {"ATTEMPTS": 2}, "thorough": {"ATTEMPTS": 4}}},
        {"name": "public_api", "pkg": "root", "entry": "VerifPublicAPI", "reach": ["api"], "params": {"quick": {}, "thorough": {}}},
        {"name": "establish_faults", "steps": 40000, "timeout_s": {"quick": 300, "thorough": 1500}, "pkg": "root", "entry": "VerifEstablish", "stubs": EST_STUBS, "reach": ["re-established", "replaced-or-gone"],
         "params": {"quick": {"FAULTS": 2}, "thorough": {"FAULTS": 4}}},
        {"name": "sendrpc_faults", "steps": 40000, "timeout_s": {"quick": 300, "thorough": 3000}, "pkg": "root", "entry": "VerifSendRPCFaults", "stubs": EST_STUBS, "reach": ["succeeded", "table-gone"],
         "preempts": {"quick": 1, "thorough": 1}, "params": {"quick": {"FAULTS": 2}, "thorough": {"FAULTS": 3}}},
        {"name": "two_callers_busy", "steps": 40000, "timeout_s": {"quick": 300, "thorough": 1500}, "pkg": "root", "entry": "VerifTwoCallers", "stubs": EST_STUBS, "reach": ["both-returned"],
         "preempts": {"quick": 1, "thorough": 2}, "params": {"quick": {"RACE": 1, "FAULTS": 1, "BUSY": 1, "SAME": 0, "RACE": 1}, "thorough": {"RACE": 1, "FAULTS": 1, "BUSY": 1, "SAME": 0, "RACE": 1}}},
        {"name": "classify_exception", "pkg": "region", "entry": "VerifClassify", "reach": ["retry-later", "region", "server", "other"],
         "params": {"quick": {"L": 70}, "thorough": {"L": 90}}},
        {"name": "classify_in_multi", "pkg": "region", "entry": "VerifClassifyInMulti", "stubs": RECV_STUBS, "reach": ["classified-in-multi"],
         "params": {"quick": {"protoMax": 1, "protoFixed": 1}, "thorough": {"protoMax": 1, "protoFixed": 1}}},
        {"name": "region_moved", "steps": 40000, "pkg": "root", "entry": "VerifRegionMoved", "stubs": EST_STUBS, "reach": ["moved"],
         "params": {"quick": {"FAULTS": 0, "STALE": 2}, "thorough": {"FAULTS": 0, "STALE": 4}}},
    ],
}

RETRY_STUBS = {"(*github.com/tsuna/gohbase.client).getRegionAndClientForRPC": "github.com/tsuna/gohbase.vRetryLocate"}
RETRY_STUBS2 = {"(*github.com/tsuna/gohbase.client).getRegionAndClientForRPC": "github.com/tsuna/gohbase.vRetryLocate2"}

PROPS["C17"] = {
    "files": ["root/fakes.go", "root/c08_cache.go", "root/c01_routing.go", "root/c09_establish.go", "root/c17_backoff.go",
              "root/c01_meta.go", "region/fakes.go", "region/c11_info.go"],
    "native_files": ["root/c17_backoff_native.go", "root/c09_establish_native.go", "root/c01_meta_native.go"],
    "native_cuts": BATCH_CUTS + EST_CUTS + [{"file": "rpc.go", "from": "func (c *client) SendRPC(", "to": "func (c *client) SendRPCOrig("}],
    "claim": "For EVERY non-negative 64-bit back-off value sleepAndIncreaseBackoff requests a wait of exactly that value (none for 0, "
             "returning 16 ms) and returns 2b below 5 s, b+5 s below 30 s, b from then on; with time standing still it returns only "
             "through cancellation, with the context's error; 17 consecutive calls reproduce the closed-form schedule. For a single "
             "request and for a batch, every sequence of ATTEMPTS answers over {retry-later, connection-dead, not-serving}: each "
             "retry-later answer is followed by one wait, waits follow the schedule in order, at most two connection-level failures "
             "are retried without a wait."
             " Also: the formula under a context with a deadline; the real lookupRegion and lookupAllRegions loops against a failing / silent ZooKeeper and a failing hbase:meta: one wait per failed attempt, on the schedule.",
    "outside": "wall-clock accuracy of time.After; request rate as a real-time quantity; more than ATTEMPTS consecutive failures; the "
               "lookups that time out inside hbase:meta scans (lookup_pacing: ZooKeeper failing or silent; lookup_all_pacing: hbase:meta failing)",
    "assumptions": ["time.After is modelled: it records the requested duration and may fire at any later scheduling point",
                    "getRegionAndClientForRPC is cut for the pacing jobs (the region is always found)"],
    "jobs": [
        {"name": "backoff_formula", "pkg": "root", "entry": "VerifBackoffFormula", "reach": ["zero", "doubling", "linear", "constant"], "no_native": True,
         "params": {"quick": {"SMALL": 0}, "thorough": {"SMALL": 0}}},
        {"name": "backoff_formula_deadline", "pkg": "root", "entry": "VerifBackoffFormulaDeadline", "reach": ["zero", "doubling", "linear", "constant", "deadline-passed"], "no_native": True,
         "params": {"quick": {"SMALL": 0}, "thorough": {"SMALL": 0}}},
        {"name": "backoff_formula_small", "pkg": "root", "entry": "VerifBackoffFormula", "reach": ["zero", "doubling"],
         "params": {"quick": {"SMALL": 1}, "thorough": {"SMALL": 1}}},
        {"name": "backoff_cancel", "pkg": "root", "entry": "VerifBackoffCancel", "reach": ["cancelled"], "no_native": True,
         "params": {"quick": {}, "thorough": {}}},
        {"name": "backoff_schedule", "pkg": "root", "entry": "VerifBackoffSchedule", "reach": ["schedule"], "no_native": True,
         "params": {"quick": {}, "thorough": {}}},
        {"name": "retry_pacing_single", "pkg": "root", "entry": "VerifRetryPacing", "stubs": RETRY_STUBS, "reach": ["paced"], "watchdog": 30,
         "params": {"quick": {"ATTEMPTS": 4, "BATCH": 0}, "thorough": {"ATTEMPTS": 6, "BATCH": 0}}},
        {"name": "retry_pacing_batch", "pkg": "root", "entry": "VerifRetryPacing", "stubs": RETRY_STUBS, "reach": ["paced"], "watchdog": 30,
         "params": {"quick": {"ATTEMPTS": 4, "BATCH": 1}, "thorough": {"ATTEMPTS": 6, "BATCH": 1}}},
        {"name": "establish_pacing", "steps": 40000, "pkg": "root", "entry": "VerifEstablishPacing", "stubs": EST_STUBS, "reach": ["paced"],
         "params": {"quick": {"ATTEMPTS": 3, "FAULTS": 0}, "thorough": {"ATTEMPTS": 6, "FAULTS": 0}}},
        {"name": "establish_pacing_probe", "steps": 40000, "pkg": "root", "entry": "VerifEstablishPacingProbe", "stubs": EST_STUBS, "reach": ["paced"],
         "params": {"quick": {"ATTEMPTS": 3, "FAULTS": 0}, "thorough": {"ATTEMPTS": 6, "FAULTS": 0}}},
        {"name": "lookup_pacing", "steps": 40000, "pkg": "root", "entry": "VerifLookupPacing", "reach": ["paced"], "native_retries": 10, "preempts": {"quick": 1, "thorough": 2},
         "params": {"quick": {"ATTEMPTS": 3}, "thorough": {"ATTEMPTS": 5}}},
        {"name": "lookup_all_pacing", "steps": 40000, "pkg": "root", "entry": "VerifLookupAllPacing", "reach": ["paced"],
         "stubs": {"(*github.com/tsuna/gohbase.client).SendRPC": "github.com/tsuna/gohbase.vMetaSendRPC",
                   "google.golang.org/protobuf/proto.Unmarshal": "github.com/tsuna/gohbase/region.vUnmarshal"},
         "params": {"quick": {"ATTEMPTS": 3}, "thorough": {"ATTEMPTS": 6}}},
        {"name": "batch_pacing_two_calls", "pkg": "root", "entry": "VerifBatchPacing", "stubs": RETRY_STUBS2, "reach": ["paced", "waited"],
         "params": {"quick": {"ATTEMPTS": 3}, "thorough": {"ATTEMPTS": 5}}},
    ],
}

PROPS["C19"] = {
    "files": EST_FILES + ["root/c19_close.go", "root/c06_scanner.go"], "native_files": ["root/c09_establish_native.go"], "native_cuts": EST_CUTS,
    "claim": "Close (twice) issued at every scheduling point within the delay bound relative to a request that waits on a region whose "
             "establisher is before / during / after its lookup, dial and probe (region cached or unknown, address known or not): the "
             "request returns success or ErrClientClosed; every region client ever created is closed; no goroutine remains; later "
             "single and batched calls for cached and unknown regions return ErrClientClosed without opening connections."
             " Also: lookups that do not notice Close (ZooKeeper-based); a scanner renewing its lease in the background stops at the first refused renewal.",
    "outside": "more than one request in flight; the admin (master) client; ZooKeeper lookups (cut); pre-emption inside non-synchronising code",
    "assumptions": ["(*client).lookupRegion is cut: after Close it answers ErrClientClosed as the real meta lookup does through SendRPC"],
    "jobs": [
        {"name": "close_race", "steps": 40000, "timeout_s": {"quick": 400, "thorough": 1800}, "pkg": "root", "entry": "VerifCloseRace", "stubs": EST_STUBS, "reach": ["closed"],
         "preempts": {"quick": 2, "thorough": 2}, "params": {"quick": {"RACE": 1, "FAULTS": 0, "ONLINE": 0}, "thorough": {"RACE": 1, "FAULTS": 1, "ONLINE": 0}}},
        {"name": "close_with_renewing_scanner", "steps": 40000, "pkg": "root", "entry": "VerifCloseWithRenewingScanner", "reach": ["renewer-stopped"], "max_ticks": 3,
         "params": {"quick": {}, "thorough": {}}},
        {"name": "close_race_online", "steps": 40000, "timeout_s": {"quick": 400, "thorough": 1800}, "pkg": "root", "entry": "VerifCloseRace", "stubs": EST_STUBS, "reach": ["closed"],
         "preempts": {"quick": 1, "thorough": 2}, "params": {"quick": {"RACE": 1, "FAULTS": 2, "ONLINE": 1}, "thorough": {"RACE": 1, "FAULTS": 2, "ONLINE": 1}}},
    ],
}

PROPS["C13"] = {
    "files": ["root/fakes.go", "root/c08_cache.go", "root/c01_routing.go", "root/c13_cancel.go", "root/c06_scanner.go", "region/fakes.go", "region/c13_queue.go"],
    "claim": "Safety form of the property: in an adversarial environment (time standing still, servers silent, regions never coming "
             "back, ZooKeeper never answering) a single request and a batch are blocked in each wait state — region unavailable, no "
             "connection with an establisher that never finishes, queued on a silent server, back-off sleep, unknown region behind a "
             "silent ZooKeeper (real lookupRegion / metaLookup / scanner / zkLookup), busy send queue of the real region client — and "
             "return the context error (the batch: failed, every unanswered call marked) after the context of the request, of the batch "
             "or of the calls (shared or distinct) is cancelled, with no further blocking."
             " A single request also for deadline expiry (deadline_single).",
    "outside": "the numeric delay; deadline expiry of batches and scans (explored for the single request only: deadline_single); goroutines blocked "
               "inside the kernel (conn.Write); states reachable only through fault scripts longer than one fault",
    "assumptions": ["a goroutine blocked inside the ZooKeeper client library is left behind (outside the client's control)"],
    "jobs": [
        {"name": "cancel_single", "steps": 60000, "pkg": "root", "entry": "VerifCancelSingle", "reach": ["cancelled"], "watchdog": 20,
         "params": {"quick": {}, "thorough": {}}},
        {"name": "deadline_single", "steps": 60000, "pkg": "root", "entry": "VerifDeadlineSingle", "reach": ["expired"], "watchdog": 20,
         "params": {"quick": {}, "thorough": {}}},
        {"name": "cancel_second_caller", "steps": 60000, "pkg": "root", "entry": "VerifCancelSecondCaller", "reach": ["second-cancelled"], "watchdog": 20,
         "params": {"quick": {}, "thorough": {}}},
        {"name": "cancel_batch", "steps": 60000, "pkg": "root", "entry": "VerifCancelBatch", "reach": ["cancelled", "call-context-cancelled"], "watchdog": 20,
         "params": {"quick": {}, "thorough": {}}},
        {"name": "cancel_scan", "steps": 60000, "pkg": "root", "entry": "VerifCancelScan", "reach": ["cancelled"], "watchdog": 20,
         "params": {"quick": {"NROWS": 1}, "thorough": {"NROWS": 1}}},
        {"name": "cancel_send_queue", "pkg": "region", "entry": "VerifCancelSendQueue", "reach": ["cancelled"],
         "params": {"quick": {}, "thorough": {}}},
    ],
}
