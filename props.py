"""Per-property check specifications: which harness files are overlaid into which package of
/repo, which entry points are explored, with which bounds per tier. See DESIGN.md §5."""

GLOBAL_ASSUMPTIONS = [
    "int is 64 bit; allocation never fails; sequential consistency, race freedom between synchronisation points (data races are not detected)",
    "logging, metrics and tracing calls are no-ops; fmt/strconv formatting returns an opaque string/error",
    "solver answers are trusted (z3 5.1.0 primary; a sample of closing queries is re-decided by z3 4.8.12 and cvc5 1.0.3)",
    "the go/ssa construction of golang.org/x/tools v0.29.0 and this engine's instruction semantics (validated per run by replaying sampled paths natively)",
]

PROPS = {}

PROPS["C16"] = {
    "files": ["region/c16_compare.go"],
    "claim": "For every pair (triple) of well-formed region names up to L bytes — all byte values, all lengths, any number of commas "
             "in the start key — sign(region.Compare(a,b)) equals the lexicographic order of (table, start key, id); Compare is "
             "antisymmetric, returns 0 only on identical names, is transitive; first regions and lookup search keys sort as the "
             "statement says. Decided by the solver on every path of the real Compare/findCommaFromEnd.",
    "outside": "names longer than L bytes; malformed names (fewer than two commas: documented panic); ids containing a comma",
    "assumptions": ["names are well-formed: table and id non-empty, at least two commas, no comma in table or id"],
    "jobs": [
        {"name": "compare_oracle", "pkg": "region", "entry": "VerifCompareOracle", "reach": ["compared"],
         "params": {"quick": {"L": 7}, "thorough": {"L": 10}}},
        {"name": "compare_antisym", "pkg": "region", "entry": "VerifCompareAntisym",
         "params": {"quick": {"L": 6}, "thorough": {"L": 8}}},
        {"name": "compare_trans", "pkg": "region", "entry": "VerifCompareTrans", "reach": ["chain"],
         "params": {"quick": {"L": 5}, "thorough": {"L": 6}}},
        {"name": "compare_first_region", "pkg": "region", "entry": "VerifCompareFirstRegion",
         "reach": ["first-vs-later", "first-vs-smaller-table", "search-key"],
         "params": {"quick": {"L": 6}, "thorough": {"L": 8}}},
    ],
}
