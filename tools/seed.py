#!/usr/bin/env python3
"""Helpers for the seeded-change corpus.
  seed.py verify <src_dir> <ID> <name>      verify an agent's deliverable in a scratch worktree, store it under /verif/seeded/<ID>-<name>/
  seed.py run <ID>-<name> [check ids...]    apply the stored patch to /repo, run the quick checks, undo it
"""
import json, os, re, shutil, subprocess, sys, glob, time
VERIF = os.path.dirname(os.path.dirname(os.path.abspath(__file__)))
ENV = dict(os.environ, GOFLAGS="-mod=mod", GOPROXY="off", GOSUMDB="off", GOTOOLCHAIN="local",
           VERIF_EVIDENCE_DIR="/tmp/verif_seed_evidence")  # runs against seeded changes must not overwrite the registered evidence

def sh(cmd, cwd=None, check=False, timeout=900):
    r = subprocess.run(cmd, shell=True, cwd=cwd, env=ENV, capture_output=True, text=True, timeout=timeout)
    if check and r.returncode != 0:
        raise SystemExit("FAILED: %s\n%s%s" % (cmd, r.stdout[-3000:], r.stderr[-3000:]))
    return r

def demo_dir(path):
    first = open(path).readline()
    src = open(path).read()
    m = re.search(r"^package (\w+)", src, re.M)
    pkg = m.group(1)
    if pkg in ("gohbase", "gohbase_test"):
        return "."
    for d in ("region", "hrpc", "zk", "compression/snappy", "filter"):
        if pkg.startswith(os.path.basename(d)):
            return d
    return "."

def verify(src, pid, name):
    wt = "/tmp/sv_%s_%s" % (pid, name)
    sh("git -C /repo worktree remove --force %s" % wt)
    sh("git -C /repo worktree add -q --detach %s HEAD" % wt, check=True)
    try:
        patch = os.path.join(src, "patch.diff")
        r = sh("git apply --3way %s" % patch, cwd=wt)
        if r.returncode != 0:
            print("PATCH DOES NOT APPLY to current HEAD:\n" + r.stdout + r.stderr)
            return 1
        sh("git reset -q", cwd=wt)
        # store the rebased patch
        rebased = sh("git diff", cwd=wt).stdout
        r = sh("go build ./...", cwd=wt)
        if r.returncode != 0:
            print("does not build:\n" + r.stderr); return 1
        ok = True
        for i in range(2):
            r = sh("go test -vet=off -count=1 ./... 2>&1 | grep -v 'no test files'", cwd=wt)
            if "FAIL" in r.stdout:
                print("suite fails with patch:\n" + r.stdout[-2000:]); ok = False; break
        if not ok:
            return 1
        demos = sorted(glob.glob(os.path.join(src, "demo*_test.go")))
        placed = []
        for d in demos:
            dd = demo_dir(d)
            dst = os.path.join(wt, dd, "zz_" + os.path.basename(d))
            shutil.copy(d, dst); placed.append((dd, dst))
        dirs = sorted({"./" + dd if dd != "." else "." for dd, _ in placed})
        names = set()
        for _, dst in placed:
            names |= set(re.findall(r"^func (Test\w+)\(", open(dst).read(), re.M))
        runpat = "^(%s)$" % "|".join(sorted(names))
        cmd = "go test -vet=off -count=1 -run '%s' %s 2>&1 | tail -40" % (runpat, " ".join(dirs))
        with_patch = sh(cmd, cwd=wt).stdout
        fails_with = "FAIL" in with_patch or "panic:" in with_patch
        sh("git apply -R %s" % "/dev/stdin", cwd=wt) if False else None
        rb = "/tmp/_rebased_%s_%s.diff" % (pid, name)
        open(rb, "w").write(rebased)
        sh("git apply -R %s" % rb, cwd=wt, check=True)
        os.remove(rb)
        without = sh(cmd, cwd=wt).stdout
        passes_without = "FAIL" not in without and "panic:" not in without and "ok" in without
        print("demo with patch: %s; without: %s" % ("FAILS" if fails_with else "passes(!)", "passes" if passes_without else "FAILS(!)"))
        if not (fails_with and passes_without):
            print(with_patch[-1500:]); print("-----"); print(without[-1500:])
            return 1
        out = os.path.join(VERIF, "seeded", "%s-%s" % (pid, name))
        os.makedirs(out, exist_ok=True)
        open(os.path.join(out, "patch.diff"), "w").write(rebased)
        for d in demos:
            shutil.copy(d, os.path.join(out, os.path.basename(d)))
        if os.path.exists(os.path.join(src, "README.md")):
            shutil.copy(os.path.join(src, "README.md"), os.path.join(out, "AGENT_README.md"))
        meta = {"property": pid, "name": name, "base_commit": sh("git rev-parse --short HEAD", cwd="/repo").stdout.strip(),
                "demo_tests": sorted(names), "demo_dirs": dirs,
                "verified": "scratch worktree of /repo HEAD: patch applies, builds, full suite passes x2 with patch; demo fails with patch, passes without",
                "needs": "", "detected_by": {}}
        mp = os.path.join(out, "meta.json")
        if os.path.exists(mp):
            old = json.load(open(mp)); meta["needs"] = old.get("needs", ""); meta["detected_by"] = old.get("detected_by", {})
        json.dump(meta, open(mp, "w"), indent=1)
        print("stored", out)
        return 0
    finally:
        sh("git -C /repo worktree remove --force %s" % wt)

def run(sid, checks, tier="quick", scratch=False):
    """scratch=False: the documented protocol (apply to /repo, run, undo). scratch=True: the same
    patch applied to a throw-away worktree of /repo HEAD that the check is pointed at
    (VERIF_REPO), so that /repo itself stays untouched while other checks are running on it."""
    d = os.path.join(VERIF, "seeded", sid)
    meta = json.load(open(os.path.join(d, "meta.json")))
    if not checks:
        checks = [meta["property"]]
    repo = "/repo"
    if scratch:
        repo = "/tmp/seedrepo_%s" % sid
        sh("git -C /repo worktree remove --force %s" % repo)
        sh("git -C /repo worktree add -q --detach %s HEAD" % repo, check=True)
        ENV["VERIF_REPO"] = repo
    else:
        st = sh("git -C /repo status --porcelain").stdout.strip()
        if st:
            raise SystemExit("/repo is not clean:\n" + st)
    sh("git -C %s apply %s" % (repo, os.path.join(d, "patch.diff")), check=True)
    try:
        for c in checks:
            t = time.time()
            r = sh("./vcheck %s --tier %s" % (c, tier), cwd=VERIF, timeout=3600)
            viol = [l for l in r.stdout.splitlines() if l.startswith("VIOLATION")]
            detail = [l.strip() for l in r.stderr.splitlines() if "violation in job" in l or "BROKEN" in l or "INCONCLUSIVE" in l or "DISAGREEMENT" in l]
            verdict = "DETECTED" if r.returncode == 1 and viol else ("BROKEN(exit %d)" % r.returncode if r.returncode else "missed")
            print("%s vs %s[%s]: %s (%.0fs)" % (sid, c, tier, verdict, time.time() - t))
            for l in detail[:6]:
                print("    " + l[:300])
            meta["detected_by"]["%s/%s" % (c, tier)] = {"verdict": verdict, "detail": detail[:4]}
    finally:
        if scratch:
            sh("git -C /repo worktree remove --force %s" % repo)
            sh("git -C /repo worktree prune")
        else:
            sh("git -C /repo checkout -- .", check=True)
            sh("git -C /repo clean -fdq", check=True)
    json.dump(meta, open(os.path.join(d, "meta.json"), "w"), indent=1)

if __name__ == "__main__":
    if sys.argv[1] == "verify":
        sys.exit(verify(sys.argv[2], sys.argv[3], sys.argv[4]))
    elif sys.argv[1] == "run":
        tier = "quick"
        a = sys.argv[2:]
        if "--tier" in a:
            i = a.index("--tier"); tier = a[i + 1]; del a[i:i + 2]
        scratch = "--scratch" in a
        if scratch:
            a.remove("--scratch")
        run(a[0], a[1:], tier, scratch)
