#!/usr/bin/env python3
"""Regenerates MANIFEST.json from props.py (claimed checks) and na.py (not applicable)."""
import json, os, sys
VERIF = os.path.dirname(os.path.abspath(__file__))
sys.path.insert(0, VERIF)
import props
try:
    import na
    NA = na.NOT_APPLICABLE
except ImportError:
    NA = {}

ids = [json.loads(l)["id"] for l in open(os.path.join(VERIF, "properties.jsonl"))]
checks = []
for pid in ids:
    if pid not in props.PROPS or props.PROPS[pid].get("unclaimed"):
        continue
    p = props.PROPS[pid]
    checks.append({
        "property_id": pid,
        "quick_cmd": "./vcheck %s --tier quick" % pid,
        "thorough_cmd": "./vcheck %s --tier thorough" % pid,
        "evidence_file": "/verif/evidence/%s.json" % pid,
        "replay_cmd_template": "./vcheck replay {path}",
        "engine": "gosym",
        "level_claimed": {"category": "model_checking", "text": p["claim"], "design_ref": "DESIGN.md §5 " + pid},
        "level_note": "Bounded: " + "; ".join("%s %s" % (j["name"], json.dumps(j["params"])) for j in p["jobs"]) +
                      ". Outside the claim: " + p.get("outside", "") + ". Trusted: go/ssa (x/tools v0.29.0), the gosym interpreter "
                      "(validated per run by native replay of sampled paths and of every counterexample), z3 5.1.0 (sampled re-decision by "
                      "z3 4.8.12 and cvc5), the stubs listed in the evidence file. Assumes: " + "; ".join(p.get("assumptions", [])),
        "technique": "solver-based bounded symbolic execution of the real code (go/ssa -> SMT QF_BV via z3), native replay of counterexamples",
    })
m = {
    "version": 1,
    "setup_cmd": "cd /verif/engine && GOFLAGS=-mod=mod GOPROXY=off GOSUMDB=off GOTOOLCHAIN=local go build -o /verif/bin/gosym ./cmd/gosym && /verif/bin/gosym -selftest 2000",
    "hooks": {"guard": "verif", "enable": "no source hooks are needed: harnesses are injected into /repo's packages through go/packages "
              "and `go test -overlay` overlays (files /repo/<pkg>/zz_verif_*.go exist only virtually); nothing under /repo is written",
              "baseline_off_cmd": "cd /repo && GOFLAGS=-mod=mod GOPROXY=off go test -json -vet=off -count=1 -timeout 25m ./...",
              "source_commits": [], "add_only": True},
    "engines": [{"name": "gosym", "path": "/verif/engine", "serves_properties": [c["property_id"] for c in checks],
                 "kind_free_text": "bounded symbolic executor for go/ssa (own code) + z3/cvc5 over SMT-LIB2 pipes; driver /verif/vcheck"}],
    "checks": checks,
    "not_applicable": [{"property_id": pid, "reason": NA.get(pid, "no check built yet in this session (work in progress; see DESIGN.md §5 for the plan)")}
                       for pid in ids if pid not in {c["property_id"] for c in checks}],
    "notes": "All checks: ./vcheck <ID> --tier quick|thorough. Exit 0 held / 1 violation / 2 could not decide. Known findings: known_findings.json.",
}
json.dump(m, open(os.path.join(VERIF, "MANIFEST.json"), "w"), indent=1)
print("MANIFEST.json: %d checks, %d not applicable" % (len(checks), len(m["not_applicable"])))
