package main

import (
	"fmt"
	"go/types"

	"golang.org/x/tools/go/ssa"
)

type Value interface{}

type Object struct {
	id  int
	v   Value
	typ types.Type
	tag string
}

// Ptr is a pointer to a location inside an object. idx, if non-nil, is a symbolic
// index into the scalar array found at path.
type Ptr struct {
	obj  *Object
	path []int
	idx  *Term
}

func (p Ptr) IsNil() bool { return p.obj == nil }

type SliceV struct {
	arr          Ptr // location of an *ArrayV; obj==nil for nil slice
	off, ln, cp  *Term
}
type StrV struct {
	s   string
	sym *SliceV // non-nil: symbolic contents (immutable)
}
type StructV struct{ f []Value }
type ArrayV struct{ e []Value }
type IfaceV struct {
	t types.Type
	v Value
}
type FuncV struct {
	fn     *ssa.Function
	free   []Value
	recv   []Value // bound receiver (method value / bound closure args prepended)
	native func(e *Exec, g *Goroutine, args []Value) Value
}
type MapEntry struct{ k, v Value }
type MapObj struct {
	id      int
	entries []MapEntry
}
type MapV struct{ m *MapObj }
type ChanObj struct {
	id     int
	buf    []Value
	cap    int
	closed bool
	tag    string
	// timers: a timer channel may deliver once (a ticker up to max_ticks times) at any
	// synchronisation point unless time is frozen
	timer   bool
	ticker  bool
	stopped bool
	fires   int
	dur     *Term
	ctx     *ctxObj // Done channel of this context
	// rendezvous for unbuffered channels
	pendingSend []*pendingSend
}
type pendingSend struct {
	g    *Goroutine
	v    Value
	done bool
}
type ChanV struct{ c *ChanObj }
type TupleV []Value
type OpaqueV struct{ tag string }

func (e *Exec) zero(t types.Type) Value {
	switch u := t.Underlying().(type) {
	case *types.Basic:
		switch {
		case u.Info()&types.IsBoolean != 0:
			return e.tt.Bool(false)
		case u.Info()&types.IsInteger != 0:
			return e.tt.Const(width(u), 0)
		case u.Info()&types.IsString != 0:
			return StrV{}
		case u.Kind() == types.UnsafePointer:
			return Ptr{}
		case u.Kind() == types.UntypedNil:
			return nil
		}
		return OpaqueV{"float"}
	case *types.Pointer:
		return Ptr{}
	case *types.Slice:
		return SliceV{}
	case *types.Map:
		return MapV{}
	case *types.Chan:
		return ChanV{}
	case *types.Signature:
		return FuncV{}
	case *types.Interface:
		return IfaceV{}
	case *types.Struct:
		s := &StructV{f: make([]Value, u.NumFields())}
		for i := range s.f {
			s.f[i] = e.zero(u.Field(i).Type())
		}
		return s
	case *types.Array:
		a := &ArrayV{e: make([]Value, u.Len())}
		for i := range a.e {
			a.e[i] = e.zero(u.Elem())
		}
		return a
	case *types.Tuple:
		tv := make(TupleV, u.Len())
		for i := range tv {
			tv[i] = e.zero(u.At(i).Type())
		}
		return tv
	}
	panic(fmt.Sprintf("zero of %s (%T)", t, t.Underlying()))
}

func copyVal(v Value) Value {
	switch v := v.(type) {
	case *StructV:
		n := &StructV{f: make([]Value, len(v.f))}
		for i, x := range v.f {
			n.f[i] = copyVal(x)
		}
		return n
	case *ArrayV:
		n := &ArrayV{e: make([]Value, len(v.e))}
		for i, x := range v.e {
			n.e[i] = copyVal(x)
		}
		return n
	}
	return v
}

func (e *Exec) newObj(t types.Type, v Value, tag string) *Object {
	e.nobj++
	return &Object{id: e.nobj, v: v, typ: t, tag: tag}
}

// locate returns the container and slot for ptr (ignoring idx).
func locate(p Ptr) (get func() Value, set func(Value)) {
	if len(p.path) == 0 {
		return func() Value { return p.obj.v }, func(v Value) { p.obj.v = v }
	}
	cur := p.obj.v
	for _, i := range p.path[:len(p.path)-1] {
		switch c := cur.(type) {
		case *StructV:
			cur = c.f[i]
		case *ArrayV:
			cur = c.e[i]
		default:
			panic(fmt.Sprintf("locate: path through %T", cur))
		}
	}
	last := p.path[len(p.path)-1]
	switch c := cur.(type) {
	case *StructV:
		return func() Value { return c.f[last] }, func(v Value) { c.f[last] = v }
	case *ArrayV:
		if last >= len(c.e) {
			panic(mkEnd("engine", fmt.Sprintf("locate index %d beyond backing array %d", last, len(c.e))))
		}
		return func() Value { return c.e[last] }, func(v Value) { c.e[last] = v }
	}
	panic(fmt.Sprintf("locate: container %T", cur))
}

func (e *Exec) load(p Ptr) Value {
	if p.obj == nil {
		panic(mkEnd("panic", "nil pointer dereference"))
	}
	e.access(p, false)
	get, _ := locate(Ptr{obj: p.obj, path: p.path})
	v := get()
	if p.idx == nil {
		return copyVal(v)
	}
	p.idx = e.subst(p.idx)
	arr := v.(*ArrayV)
	if p.idx.IsConst() {
		if p.idx.val >= uint64(len(arr.e)) {
			panic(mkEnd("engine", "load beyond backing array"))
		}
		return copyVal(arr.e[p.idx.val])
	}
	if len(arr.e) > 0 {
		if _, scalar := arr.e[0].(*Term); !scalar {
			// elements are aggregates / pointers / interfaces: fork over the feasible indices.
			// A table of pointers (few distinct targets, many indices - e.g. one pre-allocated
			// object per enum value) is forked per distinct target, not per index.
			if v, ok := e.loadPtrTable(arr, p.idx); ok {
				return v
			}
			k := e.concretize(p.idx, "index of non-scalar element")
			if k >= uint64(len(arr.e)) {
				panic(mkEnd("engine", "load beyond backing array"))
			}
			return copyVal(arr.e[k])
		}
	}
	var r *Term
	for i := len(arr.e) - 1; i >= 0; i-- {
		el, ok := arr.e[i].(*Term)
		if !ok {
			panic(mkEnd("engine", "symbolic index into non-scalar array"))
		}
		if r == nil {
			r = el
		} else {
			r = e.tt.Ite(e.tt.Eq(p.idx, e.tt.Const(64, uint64(i))), el, r)
		}
	}
	return r
}

// loadPtrTable: arr holds plain pointers (to whole objects, or nil); the index is symbolic. The
// indices are grouped by target and the path forks once per group.
func (e *Exec) loadPtrTable(arr *ArrayV, idx *Term) (Value, bool) {
	if len(arr.e) < 32 {
		return nil, false
	}
	type group struct {
		v    Ptr
		idxs []int
	}
	var groups []*group
	byObj := map[*Object]*group{}
	for i, el := range arr.e {
		q, ok := el.(Ptr)
		if !ok || len(q.path) != 0 || q.idx != nil {
			return nil, false
		}
		g := byObj[q.obj]
		if g == nil {
			g = &group{v: q}
			byObj[q.obj] = g
			groups = append(groups, g)
		}
		g.idxs = append(g.idxs, i)
	}
	if len(groups) > 24 {
		return nil, false
	}
	for gi, g := range groups {
		if gi == len(groups)-1 {
			return g.v, true
		}
		var cond *Term
		for _, i := range g.idxs {
			c := e.tt.Eq(idx, e.tt.Const(idx.w, uint64(i)))
			if cond == nil {
				cond = c
			} else {
				cond = e.tt.Or(cond, c)
			}
		}
		if e.branch(cond) {
			return g.v, true
		}
	}
	return nil, false
}

func (e *Exec) store(p Ptr, v Value) {
	if p.obj == nil {
		panic(mkEnd("panic", "nil pointer dereference (store)"))
	}
	e.access(p, true)
	get, set := locate(Ptr{obj: p.obj, path: p.path})
	if p.idx == nil {
		set(copyVal(v))
		return
	}
	arr := get().(*ArrayV)
	p.idx = e.subst(p.idx)
	if p.idx.IsConst() {
		if p.idx.val >= uint64(len(arr.e)) {
			panic(mkEnd("engine", "store beyond backing array"))
		}
		arr.e[p.idx.val] = copyVal(v)
		return
	}
	nv, scalar := v.(*Term)
	if !scalar {
		k := e.concretize(p.idx, "index of non-scalar element (store)")
		if k >= uint64(len(arr.e)) {
			panic(mkEnd("engine", "store beyond backing array"))
		}
		arr.e[k] = copyVal(v)
		return
	}
	for i := range arr.e {
		old := arr.e[i].(*Term)
		arr.e[i] = e.tt.Ite(e.tt.Eq(p.idx, e.tt.Const(64, uint64(i))), nv, old)
	}
}

func (p Ptr) field(i int) Ptr {
	np := append(append([]int{}, p.path...), i)
	return Ptr{obj: p.obj, path: np}
}

// elem returns pointer to element idx (64-bit term) of the array at p.
func (p Ptr) elem(idx *Term) Ptr {
	if p.idx != nil {
		panic(mkEnd("engine", "nested symbolic index"))
	}
	if idx.IsConst() {
		return p.field(int(idx.val))
	}
	return Ptr{obj: p.obj, path: p.path, idx: idx}
}

func samePtr(a, b Ptr) bool {
	if a.obj != b.obj || len(a.path) != len(b.path) || a.idx != b.idx {
		return false
	}
	for i := range a.path {
		if a.path[i] != b.path[i] {
			return false
		}
	}
	return true
}
