package main

import (
	"fmt"
	"go/types"
	"path"
	"strconv"
	"strings"

	"golang.org/x/tools/go/ssa"
)

// Functions whose effect is outside every property: logging, metrics, tracing.
var noopPrefixes = []string{
	"log/slog.", "(*log/slog.", "(log/slog.", "github.com/prometheus/", "(github.com/prometheus/", "(*github.com/prometheus/",
	"go.opentelemetry.io/", "(go.opentelemetry.io/", "(*go.opentelemetry.io/",
	"github.com/tsuna/gohbase/internal/observability.",
}

func isHarnessPkg(fn *ssa.Function) bool {
	return fn.Pkg != nil && strings.HasPrefix(fn.Pkg.Pkg.Path(), "github.com/tsuna/gohbase")
}

func isIntrinsicName(fn *ssa.Function) bool {
	n := fn.Name()
	if strings.HasPrefix(n, "verif") && isHarnessPkg(fn) && fn.Signature.Recv() == nil {
		return true
	}
	if n == "Reset" && fn.Signature.Recv() != nil && strings.Contains(fn.String(), "/pb.") {
		return true
	}
	if _, ok := intrinsicTable[fn.String()]; ok {
		return true
	}
	s := fn.String()
	for _, p := range noopPrefixes {
		if strings.HasPrefix(s, p) {
			return true
		}
	}
	return false
}

// isSyncIntrinsic: operations before which a pre-emption is explored. Mutex acquisitions and
// releases are not among them: a pre-emption is explored right *after* every release instead
// (isReleaseIntrinsic), which — code between synchronisation points being local under the
// race-freedom assumption — covers the same interleavings with half the scheduling points.
func isSyncIntrinsic(fn *ssa.Function) bool {
	s := fn.String()
	switch s {
	case "(*sync.Mutex).Lock", "(*sync.Mutex).Unlock", "(*sync.RWMutex).Lock", "(*sync.RWMutex).Unlock",
		"(*sync.RWMutex).RLock", "(*sync.RWMutex).RUnlock", "(*sync.Pool).Get", "(*sync.Pool).Put":
		return false
	}
	return strings.HasPrefix(s, "(*sync.") || strings.HasPrefix(s, "sync/atomic.") || strings.HasPrefix(s, "(*sync/atomic.") ||
		fn.Name() == "verifYield"
}

func isReleaseIntrinsic(fn *ssa.Function) bool {
	switch fn.String() {
	case "(*sync.Mutex).Unlock", "(*sync.RWMutex).Unlock", "(*sync.RWMutex).RUnlock":
		return true
	}
	return false
}

type intrinsicFn func(e *Exec, g *Goroutine, fn *ssa.Function, args []Value) (Value, bool)

var intrinsicTable map[string]intrinsicFn

func nop(e *Exec, g *Goroutine, fn *ssa.Function, a []Value) (Value, bool) { return nil, false }

func init() {
	intrinsicTable = map[string]intrinsicFn{
		"(*sync.Mutex).Lock":         mutexLock,
		"(*sync.Mutex).Unlock":       mutexUnlock,
		"(*sync.Mutex).TryLock":      mutexTryLock,
		"(*sync.RWMutex).Lock":       mutexLock,
		"(*sync.RWMutex).Unlock":     mutexUnlock,
		"(*sync.RWMutex).RLock":      mutexRLock,
		"(*sync.RWMutex).RUnlock":    mutexRUnlock,
		"(*sync.Once).Do":            onceDo,
		"(*sync.WaitGroup).Add":      wgAdd,
		"(*sync.WaitGroup).Done":     wgDone,
		"(*sync.WaitGroup).Wait":     wgWait,
		"(*sync.Pool).Get":           poolGet,
		"(*sync.Pool).Put":           poolPut,
		"sync/atomic.AddUint32":      atomicAdd,
		"sync/atomic.AddInt32":       atomicAdd,
		"sync/atomic.AddUint64":      atomicAdd,
		"sync/atomic.AddInt64":       atomicAdd,
		"sync/atomic.LoadUint32":     atomicLoad,
		"sync/atomic.LoadInt32":      atomicLoad,
		"sync/atomic.LoadUint64":     atomicLoad,
		"sync/atomic.LoadInt64":      atomicLoad,
		"sync/atomic.StoreUint32":    atomicStore,
		"sync/atomic.StoreInt32":     atomicStore,
		"sync/atomic.StoreUint64":    atomicStore,
		"sync/atomic.StoreInt64":     atomicStore,
		"fmt.Errorf":                 opaqueErr,
		"google.golang.org/protobuf/internal/errors.New": opaqueErr,
		"fmt.Sprintf":                opaqueStr,
		"fmt.Sprint":                 opaqueStr,
		"fmt.Sprintln":               opaqueStr,
		"fmt.Println":                nopTuple,
		"fmt.Printf":                 nopTuple,
		"strconv.Quote":              opaqueStr,
		"strconv.QuoteToASCII":       opaqueStr,
		"strconv.Itoa":               opaqueStr,
		"strconv.FormatUint":         opaqueStr,
		"strconv.FormatInt":          opaqueStr,
		"strconv.ParseUint":          strconvParseUint,
		"strings.Contains":           stringsContains,
		"strings.Index":              stringsIndex,
		"strings.HasPrefix":          stringsHasPrefix,
		"strings.ToLower":            strings1(strings.ToLower),
		"strings.ToUpper":            strings1(strings.ToUpper),
		"strings.TrimSpace":          strings1(strings.TrimSpace),
		"strings.TrimSuffix":         strings2(strings.TrimSuffix),
		"strings.TrimPrefix":         strings2(strings.TrimPrefix),
		"strings.Trim":               strings2(strings.Trim),
		"strings.TrimLeft":           strings2(strings.TrimLeft),
		"strings.TrimRight":          strings2(strings.TrimRight),
		"strings.HasSuffix":          stringsPred(strings.HasSuffix),
		"strings.EqualFold":          stringsPred(strings.EqualFold),
		"strings.ReplaceAll":         func(e *Exec, g *Goroutine, fn *ssa.Function, a []Value) (Value, bool) {
			return StrV{s: strings.ReplaceAll(concStr(a[0], fn.Name()), concStr(a[1], fn.Name()), concStr(a[2], fn.Name()))}, false
		},
		"strings.CutPrefix": func(e *Exec, g *Goroutine, fn *ssa.Function, a []Value) (Value, bool) {
			r, ok := strings.CutPrefix(concStr(a[0], fn.Name()), concStr(a[1], fn.Name()))
			return TupleV{StrV{s: r}, e.tt.Bool(ok)}, false
		},
		"strings.CutSuffix": func(e *Exec, g *Goroutine, fn *ssa.Function, a []Value) (Value, bool) {
			r, ok := strings.CutSuffix(concStr(a[0], fn.Name()), concStr(a[1], fn.Name()))
			return TupleV{StrV{s: r}, e.tt.Bool(ok)}, false
		},
		"strings.Cut": func(e *Exec, g *Goroutine, fn *ssa.Function, a []Value) (Value, bool) {
			x, y, ok := strings.Cut(concStr(a[0], fn.Name()), concStr(a[1], fn.Name()))
			return TupleV{StrV{s: x}, StrV{s: y}, e.tt.Bool(ok)}, false
		},
		"strings.IndexByte": func(e *Exec, g *Goroutine, fn *ssa.Function, a []Value) (Value, bool) {
			c, ok := a[1].(*Term)
			if !ok || !c.IsConst() {
				panic(mkEnd("unsupported", "strings.IndexByte of a symbolic byte"))
			}
			return e.tt.Const(64, uint64(int64(strings.IndexByte(concStr(a[0], fn.Name()), byte(c.val))))), false
		},
		"strings.LastIndex": func(e *Exec, g *Goroutine, fn *ssa.Function, a []Value) (Value, bool) {
			return e.tt.Const(64, uint64(int64(strings.LastIndex(concStr(a[0], fn.Name()), concStr(a[1], fn.Name()))))), false
		},
		"strings.Count": func(e *Exec, g *Goroutine, fn *ssa.Function, a []Value) (Value, bool) {
			return e.tt.Const(64, uint64(int64(strings.Count(concStr(a[0], fn.Name()), concStr(a[1], fn.Name()))))), false
		},
		"strings.Split":              stringsSplit,
		"strings.SplitN":             stringsSplit,
		"path.Join":                  pathJoin,
		"sort.Slice":                 sortSlice,
		"sort.SliceStable":           sortSlice,
		"bytes.Compare":              bytesCompare,
		"bytes.IndexByte":            bytesIndexByte,
		"bytes.LastIndexByte":        bytesLastIndexByte,
		"internal/bytealg.IndexByte": bytesIndexByte,
		"context.Background":         ctxBackground,
		"context.TODO":               ctxBackground,
		"context.WithCancel":         ctxWithCancel,
		"context.WithTimeout":        ctxWithTimeout,
		"context.WithDeadline":       ctxWithDeadline,
		"context.WithValue":          ctxWithValue,
		"context.AfterFunc":          ctxAfterFunc,
		"time.Now":                   timeNow,
		"time.Since":                 timeSince,
		"time.After":                 timeAfter,
		"time.NewTimer":              timeNewTimer,
		"time.NewTicker":             timeNewTicker,
		"(*time.Timer).Stop":         timerStop,
		"(*time.Ticker).Stop":        timerStop,
		"(*time.Timer).Reset":        timerReset,
		"time.Sleep":                 nop,
		"runtime.Gosched":            nop,
		"runtime.KeepAlive":          nop,
		"github.com/tsuna/gohbase/internal/observability.StartSpan": func(e *Exec, g *Goroutine, fn *ssa.Function, a []Value) (Value, bool) {
			// the tracer returns a context carrying the span: a distinct value (callers compare contexts)
			v, _ := ctxWithValue(e, g, fn, a)
			return TupleV{v, IfaceV{t: opaqueErrType, v: OpaqueV{"span"}}}, false
		},
		"google.golang.org/protobuf/proto.Size":                                   protoSize,
		"(google.golang.org/protobuf/proto.MarshalOptions).MarshalAppend":         protoMarshalAppend,
		"google.golang.org/protobuf/proto.Marshal":                                protoMarshal,
		"(google.golang.org/protobuf/proto.MarshalOptions).Size":                  protoSizeOpt,
		"net.JoinHostPort": func(e *Exec, g *Goroutine, fn *ssa.Function, a []Value) (Value, bool) {
			h, p := a[0].(StrV), a[1].(StrV)
			if h.sym != nil || p.sym != nil {
				panic(mkEnd("unsupported", "symbolic JoinHostPort"))
			}
			return StrV{s: h.s + ":" + p.s}, false
		},
	}
}

func nopTuple(e *Exec, g *Goroutine, fn *ssa.Function, a []Value) (Value, bool) {
	return e.zeroResults(fn), false
}

func (e *Exec) zeroResults(fn *ssa.Function) Value {
	res := fn.Signature.Results()
	switch res.Len() {
	case 0:
		return nil
	case 1:
		return e.zero(res.At(0).Type())
	}
	tv := make(TupleV, res.Len())
	for i := range tv {
		tv[i] = e.zero(res.At(i).Type())
	}
	return tv
}

func (e *Exec) lockKey(p Ptr) string {
	if p.obj == nil {
		panic(mkEnd("panic", "nil pointer dereference (sync primitive)"))
	}
	return fmt.Sprintf("%d/%v", p.obj.id, p.path)
}

// ---- sync ----

type mutexState struct {
	locked  bool
	readers int
}

func (e *Exec) mutex(p Ptr) *mutexState {
	if e.mutexes == nil {
		e.mutexes = map[string]*mutexState{}
	}
	k := e.lockKey(p)
	m := e.mutexes[k]
	if m == nil {
		m = &mutexState{}
		e.mutexes[k] = m
	}
	return m
}

func mutexLock(e *Exec, g *Goroutine, fn *ssa.Function, a []Value) (Value, bool) {
	m := e.mutex(a[0].(Ptr))
	if m.locked || m.readers > 0 {
		e.block(g, "mutex.Lock", func() bool { return !m.locked && m.readers == 0 })
		return nil, true
	}
	m.locked = true
	e.acq(g, "m"+e.lockKey(a[0].(Ptr)))
	e.acq(g, "r"+e.lockKey(a[0].(Ptr)))
	return nil, false
}
func mutexTryLock(e *Exec, g *Goroutine, fn *ssa.Function, a []Value) (Value, bool) {
	m := e.mutex(a[0].(Ptr))
	if m.locked || m.readers > 0 {
		return e.tt.Bool(false), false
	}
	m.locked = true
	return e.tt.Bool(true), false
}
func mutexUnlock(e *Exec, g *Goroutine, fn *ssa.Function, a []Value) (Value, bool) {
	m := e.mutex(a[0].(Ptr))
	if !m.locked {
		panic(mkEnd("panic", "unlock of unlocked mutex"))
	}
	e.rel(g, "m"+e.lockKey(a[0].(Ptr)))
	m.locked = false
	return nil, false
}
func mutexRLock(e *Exec, g *Goroutine, fn *ssa.Function, a []Value) (Value, bool) {
	m := e.mutex(a[0].(Ptr))
	if m.locked {
		e.block(g, "rwmutex.RLock", func() bool { return !m.locked })
		return nil, true
	}
	m.readers++
	e.acq(g, "m"+e.lockKey(a[0].(Ptr)))
	return nil, false
}
func mutexRUnlock(e *Exec, g *Goroutine, fn *ssa.Function, a []Value) (Value, bool) {
	m := e.mutex(a[0].(Ptr))
	if m.readers <= 0 {
		panic(mkEnd("panic", "RUnlock of unlocked RWMutex"))
	}
	m.readers--
	e.rel(g, "r"+e.lockKey(a[0].(Ptr)))
	return nil, false
}

type onceState struct {
	done    bool
	running bool
}

// onceDo: the first caller runs f on its own stack (f may block); concurrent callers wait
// until it has returned, as sync.Once specifies.
func onceDo(e *Exec, g *Goroutine, fn *ssa.Function, a []Value) (Value, bool) {
	k := e.lockKey(a[0].(Ptr))
	o := e.onces[k]
	if o == nil {
		o = &onceState{}
		e.onces[k] = o
	}
	if o.done {
		e.acq(g, "o"+k)
		return nil, false
	}
	if o.running {
		e.block(g, "once.Do", func() bool { return o.done })
		return nil, true
	}
	o.running = true
	f := a[1].(FuncV)
	e.pushedFrame = true
	e.pushCall(g, f, nil, nil, func(Value) { e.rel(g, "o"+k); o.done, o.running = true, false })
	return nil, false
}

type wgState struct{ n int }

func (e *Exec) wg(p Ptr) *wgState {
	k := e.lockKey(p)
	w := e.wgs[k]
	if w == nil {
		w = &wgState{}
		e.wgs[k] = w
	}
	return w
}
func wgAdd(e *Exec, g *Goroutine, fn *ssa.Function, a []Value) (Value, bool) {
	w := e.wg(a[0].(Ptr))
	d := a[1].(*Term)
	if !d.IsConst() {
		panic(mkEnd("unsupported", "symbolic WaitGroup.Add"))
	}
	w.n += int(sext(d.val, d.w))
	if w.n < 0 {
		panic(mkEnd("panic", "negative WaitGroup counter"))
	}
	return nil, false
}
func wgDone(e *Exec, g *Goroutine, fn *ssa.Function, a []Value) (Value, bool) {
	w := e.wg(a[0].(Ptr))
	e.rel(g, "w"+e.lockKey(a[0].(Ptr)))
	w.n--
	if w.n < 0 {
		panic(mkEnd("panic", "negative WaitGroup counter"))
	}
	return nil, false
}
func wgWait(e *Exec, g *Goroutine, fn *ssa.Function, a []Value) (Value, bool) {
	w := e.wg(a[0].(Ptr))
	if w.n > 0 {
		e.block(g, "WaitGroup.Wait", func() bool { return w.n == 0 })
		return nil, true
	}
	e.acq(g, "w"+e.lockKey(a[0].(Ptr)))
	return nil, false
}

// sync.Pool: Get returns a fresh New() or — nondeterministically — an object that was Put
// earlier, so that use of a pooled object after it was returned is observable.
func poolGet(e *Exec, g *Goroutine, fn *ssa.Function, a []Value) (Value, bool) {
	p := a[0].(Ptr)
	k := e.lockKey(p)
	e.acq(g, "p"+k)
	if items := e.pools[k]; len(items) > 0 {
		if e.choose(2) == 0 {
			v := items[len(items)-1]
			e.pools[k] = items[:len(items)-1]
			return v, false
		}
	}
	st := e.load(p).(*StructV)
	newf := st.f[len(st.f)-1].(FuncV)
	if newf.fn == nil && newf.native == nil {
		return IfaceV{}, false
	}
	var res Value
	e.callSync(g, newf, nil, func(v Value) { res = v })
	return res, false
}
func poolPut(e *Exec, g *Goroutine, fn *ssa.Function, a []Value) (Value, bool) {
	k := e.lockKey(a[0].(Ptr))
	if iv, ok := a[1].(IfaceV); ok && iv.t == nil {
		return nil, false
	}
	e.rel(g, "p"+k)
	e.pools[k] = append(e.pools[k], a[1])
	return nil, false
}

func atomicAdd(e *Exec, g *Goroutine, fn *ssa.Function, a []Value) (Value, bool) {
	p := a[0].(Ptr)
	e.acq(g, "a"+e.lockKey(p))
	defer e.rel(g, "a"+e.lockKey(p))
	defer func(on bool) { e.raceOn = on }(e.raceOn)
	e.raceOn = false
	v := e.tt.Bin(OAdd, e.load(p).(*Term), a[1].(*Term))
	e.store(p, v)
	return v, false
}
func atomicLoad(e *Exec, g *Goroutine, fn *ssa.Function, a []Value) (Value, bool) {
	e.acq(g, "a"+e.lockKey(a[0].(Ptr)))
	defer func(on bool) { e.raceOn = on }(e.raceOn)
	e.raceOn = false
	return e.load(a[0].(Ptr)), false
}
func atomicStore(e *Exec, g *Goroutine, fn *ssa.Function, a []Value) (Value, bool) {
	defer func(on bool) { e.raceOn = on; e.rel(g, "a"+e.lockKey(a[0].(Ptr))) }(e.raceOn)
	e.raceOn = false
	e.store(a[0].(Ptr), a[1])
	return nil, false
}

// ---- opaque formatting ----

var opaqueErrType = types.NewNamed(types.NewTypeName(0, nil, "opaqueError", nil), types.NewStruct(nil, nil), nil)

func opaqueErr(e *Exec, g *Goroutine, fn *ssa.Function, a []Value) (Value, bool) {
	e.nobj++
	return IfaceV{t: opaqueErrType, v: OpaqueV{fmt.Sprintf("err%d", e.nobj)}}, false
}
func opaqueStr(e *Exec, g *Goroutine, fn *ssa.Function, a []Value) (Value, bool) {
	return StrV{s: "<opaque>"}, false
}

func concStr(v Value, what string) string {
	s := v.(StrV)
	if s.sym != nil {
		panic(mkEnd("unsupported", "symbolic string in "+what))
	}
	return s.s
}

func strconvParseUint(e *Exec, g *Goroutine, fn *ssa.Function, a []Value) (Value, bool) {
	s := concStr(a[0], "strconv.ParseUint")
	base := int(a[1].(*Term).val)
	bits := int(a[2].(*Term).val)
	u, err := strconv.ParseUint(s, base, bits)
	if err != nil {
		e.nobj++
		return TupleV{e.tt.Const(64, u), IfaceV{t: opaqueErrType, v: OpaqueV{fmt.Sprintf("err%d", e.nobj)}}}, false
	}
	return TupleV{e.tt.Const(64, u), IfaceV{}}, false
}

func stringsContains(e *Exec, g *Goroutine, fn *ssa.Function, a []Value) (Value, bool) {
	sub := a[1].(StrV)
	if sub.sym == nil && sub.s == "" {
		return e.tt.Bool(true), false
	}
	return e.tt.Bool(strings.Contains(concStr(a[0], "strings.Contains"), concStr(a[1], "strings.Contains"))), false
}
func stringsIndex(e *Exec, g *Goroutine, fn *ssa.Function, a []Value) (Value, bool) {
	return e.tt.Const(64, uint64(int64(strings.Index(concStr(a[0], "strings.Index"), concStr(a[1], "strings.Index"))))), false
}
func stringsHasPrefix(e *Exec, g *Goroutine, fn *ssa.Function, a []Value) (Value, bool) {
	return e.tt.Bool(strings.HasPrefix(concStr(a[0], "strings.HasPrefix"), concStr(a[1], "strings.HasPrefix"))), false
}
// pure functions of package strings on concrete strings: computed by the real function
func strings1(f func(string) string) intrinsicFn {
	return func(e *Exec, g *Goroutine, fn *ssa.Function, a []Value) (Value, bool) {
		return StrV{s: f(concStr(a[0], "strings."+fn.Name()))}, false
	}
}
func strings2(f func(string, string) string) intrinsicFn {
	return func(e *Exec, g *Goroutine, fn *ssa.Function, a []Value) (Value, bool) {
		return StrV{s: f(concStr(a[0], "strings."+fn.Name()), concStr(a[1], "strings."+fn.Name()))}, false
	}
}
func stringsPred(f func(string, string) bool) intrinsicFn {
	return func(e *Exec, g *Goroutine, fn *ssa.Function, a []Value) (Value, bool) {
		return e.tt.Bool(f(concStr(a[0], "strings."+fn.Name()), concStr(a[1], "strings."+fn.Name()))), false
	}
}

func stringsSplit(e *Exec, g *Goroutine, fn *ssa.Function, a []Value) (Value, bool) {
	var parts []string
	if fn.Name() == "SplitN" {
		parts = strings.SplitN(concStr(a[0], "strings.SplitN"), concStr(a[1], "strings.SplitN"), int(sext(a[2].(*Term).val, 64)))
	} else {
		parts = strings.Split(concStr(a[0], "strings.Split"), concStr(a[1], "strings.Split"))
	}
	arr := &ArrayV{}
	for _, p := range parts {
		arr.e = append(arr.e, StrV{s: p})
	}
	n := e.tt.Const(64, uint64(len(parts)))
	return SliceV{arr: Ptr{obj: e.newObj(nil, arr, "strings.Split")}, off: e.tt.Const(64, 0), ln: n, cp: n}, false
}

func pathJoin(e *Exec, g *Goroutine, fn *ssa.Function, a []Value) (Value, bool) {
	sl := a[0].(SliceV)
	var parts []string
	if sl.arr.obj != nil {
		off, n := e.sliceConcrete(sl, "path.Join")
		get, _ := locate(sl.arr)
		arr := get().(*ArrayV)
		for i := 0; i < n; i++ {
			parts = append(parts, concStr(arr.e[off+i], "path.Join"))
		}
	}
	return StrV{s: path.Join(parts...)}, false
}

// sortSlice models sort.Slice / sort.SliceStable by their contract: the result is sorted with
// respect to less; for sort.Slice elements that compare equal may end up in either order
// (a nondeterministic choice), exactly what the documentation leaves open.
func sortSlice(e *Exec, g *Goroutine, fn *ssa.Function, a []Value) (Value, bool) {
	iv := a[0].(IfaceV)
	sl, ok := iv.v.(SliceV)
	if !ok {
		panic(mkEnd("unsupported", "sort.Slice of a non-slice"))
	}
	less := a[1].(FuncV)
	if sl.arr.obj == nil {
		return nil, false
	}
	off, n := e.sliceConcrete(sl, "sort.Slice")
	get, _ := locate(sl.arr)
	arr := get().(*ArrayV)
	stable := fn.Name() == "SliceStable"
	call := func(i, j int) bool {
		var r Value
		e.callSync(g, less, []Value{e.tt.Const(64, uint64(i)), e.tt.Const(64, uint64(j))}, func(v Value) { r = v })
		return e.branch(r.(*Term))
	}
	for i := 1; i < n; i++ {
		for j := i; j > 0; j-- {
			swap := call(j, j-1)
			if !swap && !stable && !call(j-1, j) {
				swap = e.choose(2) == 1 // equal elements: order unspecified
			}
			if !swap {
				break
			}
			arr.e[off+j], arr.e[off+j-1] = arr.e[off+j-1], arr.e[off+j]
		}
	}
	return nil, false
}

// sliceTerms returns the element terms of a byte slice after concretising its offset and
// length (forks over the feasible lengths).
func (e *Exec) sliceTerms(s SliceV, what string) []*Term {
	if s.arr.obj == nil {
		return nil
	}
	off, n := e.sliceConcrete(s, what)
	get, _ := locate(s.arr)
	arr := get().(*ArrayV)
	out := make([]*Term, n)
	for i := 0; i < n; i++ {
		out[i] = arr.e[off+i].(*Term)
	}
	return out
}

func bytesCompare(e *Exec, g *Goroutine, fn *ssa.Function, a []Value) (Value, bool) {
	tt := e.tt
	x := e.sliceTerms(a[0].(SliceV), "bytes.Compare")
	y := e.sliceTerms(a[1].(SliceV), "bytes.Compare")
	res := tt.Const(64, 0)
	if len(x) < len(y) {
		res = tt.Const(64, ^uint64(0))
	} else if len(x) > len(y) {
		res = tt.Const(64, 1)
	}
	n := len(x)
	if len(y) < n {
		n = len(y)
	}
	for i := n - 1; i >= 0; i-- {
		res = tt.Ite(tt.Eq(x[i], y[i]), res, tt.Ite(tt.Cmp(OUlt, x[i], y[i]), tt.Const(64, ^uint64(0)), tt.Const(64, 1)))
	}
	return res, false
}

func bytesIndexByte(e *Exec, g *Goroutine, fn *ssa.Function, a []Value) (Value, bool) {
	tt := e.tt
	x := e.sliceTerms(a[0].(SliceV), "bytes.IndexByte")
	c := a[1].(*Term)
	res := tt.Const(64, ^uint64(0))
	for i := len(x) - 1; i >= 0; i-- {
		res = tt.Ite(tt.Eq(x[i], c), tt.Const(64, uint64(i)), res)
	}
	return res, false
}

func bytesLastIndexByte(e *Exec, g *Goroutine, fn *ssa.Function, a []Value) (Value, bool) {
	tt := e.tt
	x := e.sliceTerms(a[0].(SliceV), "bytes.LastIndexByte")
	c := a[1].(*Term)
	res := tt.Const(64, ^uint64(0))
	for i := 0; i < len(x); i++ {
		res = tt.Ite(tt.Eq(x[i], c), tt.Const(64, uint64(i)), res)
	}
	return res, false
}

// ---- protobuf contract stubs ----

func (e *Exec) param(name string, def int64) int64 {
	if v, ok := e.job.Params[name]; ok {
		return v
	}
	return def
}

func (e *Exec) protoSizeOf(m Value) *Term {
	key := "?"
	if iv, ok := m.(IfaceV); ok {
		if p, ok := iv.v.(Ptr); ok && p.obj != nil {
			key = e.lockKey(p)
		}
	}
	if e.protoSizes == nil {
		e.protoSizes = map[string]*Term{}
	}
	if t, ok := e.protoSizes[key]; ok {
		return t
	}
	max := e.param("protoMax", 2)
	if e.param("protoFixed", 0) == 1 {
		t := e.tt.Const(64, uint64(max))
		e.protoSizes[key] = t
		return t
	}
	n := e.freshVar(64, "psize")
	e.assume(e.tt.Cmp(OUle, n, e.tt.Const(64, uint64(max))))
	e.protoSizes[key] = n
	return n
}

func protoSize(e *Exec, g *Goroutine, fn *ssa.Function, a []Value) (Value, bool) {
	return e.protoSizeOf(a[0]), false
}
func protoSizeOpt(e *Exec, g *Goroutine, fn *ssa.Function, a []Value) (Value, bool) {
	return e.protoSizeOf(a[1]), false
}

func (e *Exec) opaqueBytes(n int, tag string) SliceV {
	arr := &ArrayV{}
	for i := 0; i < n; i++ {
		arr.e = append(arr.e, e.freshVar(8, tag))
	}
	c := e.tt.Const(64, uint64(n))
	return SliceV{arr: Ptr{obj: e.newObj(nil, arr, tag)}, off: e.tt.Const(64, 0), ln: c, cp: c}
}

func protoMarshalAppend(e *Exec, g *Goroutine, fn *ssa.Function, a []Value) (Value, bool) {
	b := a[1].(SliceV)
	n := int(e.concretize(e.protoSizeOf(a[2]), "proto size"))
	if n == 0 {
		return TupleV{b, IfaceV{}}, false
	}
	return TupleV{e.appendOp(b, e.opaqueBytes(n, "pbyte"), nil), IfaceV{}}, false
}

func protoMarshal(e *Exec, g *Goroutine, fn *ssa.Function, a []Value) (Value, bool) {
	n := int(e.concretize(e.protoSizeOf(a[0]), "proto size"))
	return TupleV{e.opaqueBytes(n, "pbyte"), IfaceV{}}, false
}

// ---- context ----

type afterReg struct {
	f       FuncV
	fired   bool
	stopped bool
}

// ctxAfterFunc: f runs in its own goroutine once ctx is done; stop() unregisters it.
func ctxAfterFunc(e *Exec, g *Goroutine, fn *ssa.Function, a []Value) (Value, bool) {
	c := e.parentCtx(a[0])
	r := &afterReg{f: a[1].(FuncV)}
	if c.isCancelled() {
		r.fired = true
		e.newGoroutine(r.f, nil)
	} else {
		c.after = append(c.after, r)
	}
	stop := FuncV{native: func(e *Exec, g *Goroutine, args []Value) Value {
		if r.fired || r.stopped {
			return e.tt.Bool(false)
		}
		r.stopped = true
		return e.tt.Bool(true)
	}}
	return stop, false
}

func (e *Exec) fireAfter(c *ctxObj) {
	for _, r := range c.after {
		if !r.fired && !r.stopped {
			r.fired = true
			e.newGoroutine(r.f, nil)
		}
	}
}

type ctxObj struct {
	after     []*afterReg
	id        int
	done      *ChanObj
	cancelled bool
	deadline  bool // cancelled by its own deadline
	timeout   bool // may expire spontaneously
	dl        int64
	parent    *ctxObj
}

var ctxType types.Type

func ctxBackground(e *Exec, g *Goroutine, fn *ssa.Function, a []Value) (Value, bool) {
	return IfaceV{t: e.ctxT(), v: &ctxObj{}}, false
}

func (e *Exec) ctxT() types.Type {
	if ctxType == nil {
		ctxType = types.NewNamed(types.NewTypeName(0, nil, "engineCtx", nil), types.NewStruct(nil, nil), nil)
	}
	return ctxType
}

func (e *Exec) parentCtx(v Value) *ctxObj {
	iv, ok := v.(IfaceV)
	if !ok || iv.t == nil {
		panic(mkEnd("panic", "cannot create context from nil parent"))
	}
	c, ok := iv.v.(*ctxObj)
	if !ok {
		panic(mkEnd("unsupported", "context derived from a non-engine context"))
	}
	return c
}

func (e *Exec) newCtx(parent *ctxObj, timeout bool) (*ctxObj, FuncV) {
	e.nobj++
	c := &ctxObj{id: e.nobj, done: &ChanObj{id: e.nobj, tag: "ctx.Done"}, parent: parent, timeout: timeout}
	c.done.ctx = c
	if parent.isCancelled() {
		c.cancelled, c.done.closed = true, true
		c.deadline = parent.byDeadline()
	}
	e.ctxs = append(e.ctxs, c)
	cancel := FuncV{native: func(e *Exec, g *Goroutine, args []Value) Value {
		e.cancelCtx(c)
		return nil
	}}
	return c, cancel
}

func ctxWithCancel(e *Exec, g *Goroutine, fn *ssa.Function, a []Value) (Value, bool) {
	c, cancel := e.newCtx(e.parentCtx(a[0]), false)
	return TupleV{IfaceV{t: e.ctxT(), v: c}, cancel}, false
}

func ctxWithTimeout(e *Exec, g *Goroutine, fn *ssa.Function, a []Value) (Value, bool) {
	c, cancel := e.newCtx(e.parentCtx(a[0]), true)
	e.ndl++
	c.dl = (e.now+1)<<20 + e.ndl // a token that identifies this deadline (ctx.Deadline() hands it out)
	return TupleV{IfaceV{t: e.ctxT(), v: c}, cancel}, false
}

// ctxWithDeadline: as WithTimeout, except that a deadline taken from another context
// (ctx.Deadline()) keeps its identity: if that deadline has already passed - its context expired -
// the new context is born expired, as in Go.
func ctxWithDeadline(e *Exec, g *Goroutine, fn *ssa.Function, a []Value) (Value, bool) {
	v, _ := ctxWithTimeout(e, g, fn, a)
	c := v.(TupleV)[0].(IfaceV).v.(*ctxObj)
	if tv, ok := a[1].(*StructV); ok && len(tv.f) > 1 {
		if t, ok := tv.f[1].(*Term); ok && t.IsConst() && t.val != 0 {
			c.dl = int64(t.val)
			if e.passedDl[c.dl] && !c.cancelled {
				c.deadline = true
				e.cancelCtx(c)
			}
		}
	}
	return v, false
}

// byDeadline: the nearest cancelled ancestor (or c itself) ended by deadline expiry.
func (c *ctxObj) byDeadline() bool {
	for p := c; p != nil; p = p.parent {
		if p.cancelled {
			return p.deadline
		}
	}
	return false
}

// verifExpire(ctx): the deadline of ctx (made by WithTimeout / WithDeadline) passes now, also
// while time is frozen. Natively: wait for the (short) real deadline.
func ctxExpire(e *Exec, ctx Value) {
	c := e.parentCtx(ctx)
	if !c.timeout {
		panic(mkEnd("engine", "verifExpire on a context without deadline"))
	}
	e.dlPassed(c.dl)
	if !c.cancelled {
		c.deadline = true
		e.cancelCtx(c)
	}
}

// dlPassed records that the deadline with token dl has passed; contexts that carry the same
// deadline (made by WithDeadline from ctx.Deadline()) expire with it.
func (e *Exec) dlPassed(dl int64) {
	if e.passedDl == nil {
		e.passedDl = map[int64]bool{}
	}
	if e.passedDl[dl] {
		return
	}
	e.passedDl[dl] = true
	for _, o := range e.ctxs {
		if o.timeout && o.dl == dl && !o.cancelled {
			o.deadline = true
			e.cancelCtx(o)
		}
	}
}

// ctxWithValue: a child that carries no cancellation state of its own (Done/Err are its
// parent's) but is a different context value.
func ctxWithValue(e *Exec, g *Goroutine, fn *ssa.Function, a []Value) (Value, bool) {
	p := e.parentCtx(a[0])
	e.nobj++
	return IfaceV{t: e.ctxT(), v: &ctxObj{id: e.nobj, parent: p}}, false
}

func (e *Exec) cancelCtx(c *ctxObj) {
	if c.cancelled {
		return
	}
	c.cancelled = true
	if c.done != nil {
		c.done.closed = true
		e.rel(e.cur, c.done)
	}
	e.fireAfter(c)
	for _, d := range e.ctxs { // propagate to descendants
		if !d.cancelled && d.isCancelled() && d.done != nil {
			d.cancelled = true
			d.deadline = c.deadline // a child reports its parent's error
			d.done.closed = true
			e.rel(e.cur, d.done)
			e.fireAfter(d)
		}
	}
}

// ---- time ----

func (e *Exec) timeVal(fn *ssa.Function, sec int64) Value {
	var tt types.Type
	res := fn.Signature.Results()
	for i := 0; i < res.Len(); i++ {
		if n, ok := res.At(i).Type().(*types.Named); ok && n.Obj().Name() == "Time" {
			tt = n
		}
	}
	t := e.zero(tt).(*StructV)
	t.f[1] = e.tt.Const(64, uint64(sec))
	return t
}

// timeNow: a non-decreasing clock. By default it advances one second per reading; with the job
// parameter TIMEND=1 every reading is a nondeterministic choice between "no time has passed
// since the last reading" and "an hour has passed", so that code whose behaviour depends on how
// fast the clock moves is explored in both regimes.
func timeNow(e *Exec, g *Goroutine, fn *ssa.Function, a []Value) (Value, bool) {
	if e.param("TIMEND", 0) == 1 {
		if e.choose(2) == 1 {
			e.now += 3600
		}
		return e.timeVal(fn, e.now), false
	}
	e.now++
	return e.timeVal(fn, e.now), false
}

func timeSince(e *Exec, g *Goroutine, fn *ssa.Function, a []Value) (Value, bool) {
	return e.tt.Const(64, 0), false
}

func (e *Exec) newTimerChan(d Value, ticker bool) *ChanObj {
	e.nobj++
	c := &ChanObj{id: e.nobj, timer: true, ticker: ticker, tag: "timer"}
	if t, ok := d.(*Term); ok {
		c.dur = t
		e.timerDurs = append(e.timerDurs, t)
	}
	return c
}

func timeAfter(e *Exec, g *Goroutine, fn *ssa.Function, a []Value) (Value, bool) {
	return ChanV{c: e.newTimerChan(a[0], false)}, false
}

func (e *Exec) timerObj(fn *ssa.Function, c *ChanObj) Value {
	pt := fn.Signature.Results().At(0).Type().(*types.Pointer)
	st := e.zero(pt.Elem()).(*StructV)
	st.f[0] = ChanV{c: c}
	return Ptr{obj: e.newObj(pt.Elem(), st, "timer")}
}

func timeNewTimer(e *Exec, g *Goroutine, fn *ssa.Function, a []Value) (Value, bool) {
	return e.timerObj(fn, e.newTimerChan(a[0], false)), false
}
func timeNewTicker(e *Exec, g *Goroutine, fn *ssa.Function, a []Value) (Value, bool) {
	return e.timerObj(fn, e.newTimerChan(a[0], true)), false
}
func timerStop(e *Exec, g *Goroutine, fn *ssa.Function, a []Value) (Value, bool) {
	st := e.load(a[0].(Ptr)).(*StructV)
	c := st.f[0].(ChanV).c
	was := !c.stopped && c.fires == 0
	c.stopped = true
	return e.tt.Bool(was), false
}
func timerReset(e *Exec, g *Goroutine, fn *ssa.Function, a []Value) (Value, bool) {
	st := e.load(a[0].(Ptr)).(*StructV)
	c := st.f[0].(ChanV).c
	was := !c.stopped && c.fires == 0
	c.stopped, c.fires = false, 0
	return e.tt.Bool(was), false
}

// callSync runs f(args) to completion on g before returning (used by intrinsics that call back).
func (e *Exec) callSync(g *Goroutine, f FuncV, args []Value, onRet func(Value)) {
	depth := len(g.stack)
	doneFlag := false
	e.pushCall(g, f, args, nil, func(v Value) { doneFlag = true; onRet(v) })
	for !doneFlag && len(g.stack) > depth {
		if g.state != GRun {
			panic(mkEnd("unsupported", "blocking inside synchronous callback"))
		}
		e.step(g)
	}
}

// ---- the harness API (verif*) ----

func (e *Exec) argInt(v Value, what string) int {
	t := v.(*Term)
	if !t.IsConst() {
		panic(mkEnd("engine", what+": argument must be concrete"))
	}
	return int(sext(t.val, t.w))
}

func (e *Exec) symBytes(max, extra int, fixed bool) SliceV {
	tt := e.tt
	arr := &ArrayV{}
	var bs []*Term
	for i := 0; i < max+extra; i++ {
		b := e.freshVar(8, "b")
		arr.e = append(arr.e, b)
		bs = append(bs, b)
	}
	var l *Term
	if fixed {
		l = tt.Const(64, uint64(max))
	} else {
		l = e.freshVar(64, "len")
		e.assume(tt.Cmp(OUle, l, tt.Const(64, uint64(max))))
	}
	e.vec = append(e.vec, vecRec{kind: "bytes", bytes: bs, ln: l, extra: extra})
	cp := l
	if extra > 0 {
		cp = tt.Bin(OAdd, l, tt.Const(64, uint64(extra)))
	}
	return SliceV{arr: Ptr{obj: e.newObj(nil, arr, "verifBytes")}, off: tt.Const(64, 0), ln: l, cp: cp}
}

func (e *Exec) symInt(w int, tag string) *Term {
	v := e.freshVar(w, tag)
	e.vec = append(e.vec, vecRec{kind: "int", t: v})
	return v
}

func (e *Exec) assertKey(g *Goroutine, msg string) string {
	fn := "?"
	if len(g.stack) > 0 {
		fr := g.stack[len(g.stack)-1]
		fn = fr.fn.Name()
		if fr.pc < len(fr.block.Instrs) {
			p := e.prog.Fset.Position(fr.block.Instrs[fr.pc].Pos())
			fn = fmt.Sprintf("%s:%d", fn, p.Line)
		}
	}
	if msg != "" {
		return msg
	}
	return fn
}

func stat(m map[string]*AssertStat, k string) *AssertStat {
	a := m[k]
	if a == nil {
		a = &AssertStat{}
		m[k] = a
	}
	return a
}

func (e *Exec) intrinsic(g *Goroutine, fn *ssa.Function, args []Value) (Value, bool) {
	name := fn.String()
	if f, ok := intrinsicTable[name]; ok {
		e.intrSeen[name] = true
		return f(e, g, fn, args)
	}
	tt := e.tt
	if strings.HasPrefix(fn.Name(), "verif") && isHarnessPkg(fn) {
		switch fn.Name() {
		case "verifParam":
			n := concStr(args[0], "verifParam")
			v, ok := e.job.Params[n]
			if !ok {
				panic(mkEnd("engine", "missing job parameter "+n))
			}
			return tt.Const(64, uint64(v)), false
		case "verifNative":
			return tt.Bool(false), false
		case "verifBytes":
			return e.symBytes(e.argInt(args[0], "verifBytes"), 0, false), false
		case "verifBytesN":
			return e.symBytes(e.argInt(args[0], "verifBytesN"), 0, true), false
		case "verifBytesCap":
			return e.symBytes(e.argInt(args[0], "verifBytesCap"), e.argInt(args[1], "verifBytesCap"), false), false
		case "verifString":
			s := e.symBytes(e.argInt(args[0], "verifString"), 0, false)
			return StrV{sym: &s}, false
		case "verifU8":
			return e.symInt(8, "u8"), false
		case "verifU16":
			return e.symInt(16, "u16"), false
		case "verifU32", "verifI32":
			return e.symInt(32, "u32"), false
		case "verifU64", "verifI64":
			return e.symInt(64, "u64"), false
		case "verifBool":
			v := e.symInt(8, "bool")
			e.assume(tt.Cmp(OUle, v, tt.Const(8, 1)))
			return tt.Eq(v, tt.Const(8, 1)), false
		case "verifInt":
			v := e.symInt(64, "int")
			e.assume(tt.And(tt.Cmp(OSle, args[0].(*Term), v), tt.Cmp(OSle, v, args[1].(*Term))))
			return v, false
		case "verifChoose":
			n := e.argInt(args[0], "verifChoose")
			e.internalND-- // explicit harness choice, replayable natively
			k := e.choose(n)
			if n <= 1 {
				e.internalND++
			}
			e.vec = append(e.vec, vecRec{kind: "choose", val: k})
			return tt.Const(64, uint64(k)), false
		case "verifAssume":
			k := e.assertKey(g, "")
			if !e.branch(args[0].(*Term)) {
				stat(e.assumes, k).Fail++
				panic(mkEnd("assume", ""))
			}
			stat(e.assumes, k).Pass++
			return nil, false
		case "verifAssert":
			msg := ""
			if len(args) > 1 {
				msg = concStr(args[1], "verifAssert")
			}
			k := e.assertKey(g, msg)
			e.closing = true
			ok := e.branch(args[0].(*Term))
			e.closing = false
			if !ok {
				stat(e.asserts, k).Fail++
				panic(pathEnd{kind: "assertfail", msg: k, key: "assert: " + k})
			}
			stat(e.asserts, k).Pass++
			return nil, false
		case "verifFail":
			k := concStr(args[0], "verifFail")
			stat(e.asserts, k).Fail++
			panic(pathEnd{kind: "assertfail", msg: k, key: "assert: " + k})
		case "verifJitter": // native schedule perturbation only
			return nil, false
		case "verifExpire":
			ctxExpire(e, args[0])
			return nil, false
		case "verifReach":
			e.reach[concStr(args[0], "verifReach")]++
			return nil, false
		case "verifObserveInt":
			t := args[1].(*Term)
			e.obs = append(e.obs, obsRec{tag: concStr(args[0], "verifObserve"), t: t})
			return nil, false
		case "verifObserveBool":
			t := args[1].(*Term)
			e.obs = append(e.obs, obsRec{tag: concStr(args[0], "verifObserve"), t: tt.Ite(t, tt.Const(64, 1), tt.Const(64, 0))})
			return nil, false
		case "verifObserveBytes":
			s := args[1].(SliceV)
			o := obsRec{tag: concStr(args[0], "verifObserve"), ln: tt.Const(64, 0)}
			if s.arr.obj != nil {
				// bytes stay symbolic; length may be symbolic too
				get, _ := locate(s.arr)
				arr := get().(*ArrayV)
				o.ln = s.ln
				for i := 0; i < len(arr.e); i++ {
					o.bytes = append(o.bytes, e.load(s.arr.elem(tt.Bin(OAdd, s.off, tt.Const(64, uint64(i))))).(*Term))
					if s.off.IsConst() && int(s.off.val)+i+1 >= len(arr.e) {
						break
					}
				}
			}
			e.obs = append(e.obs, o)
			return nil, false
		case "verifObserveStr":
			e.obs = append(e.obs, obsRec{tag: concStr(args[0], "verifObserve"), s: concStr(args[1], "verifObserveStr")})
			return nil, false
		case "verifYield":
			return nil, false
		case "verifFreezeTime":
			e.frozenTime = args[0].(*Term).IsTrue()
			return nil, false
		case "verifQuiesce":
			// block until no other goroutine can run
			others := false
			for _, o := range e.runnable() {
				if o != g {
					others = true
				}
			}
			if others {
				e.block(g, "quiesce", func() bool {
					for _, o := range e.gs {
						if o != g && (o.state == GRun || (o.state == GBlocked && o.ready != nil && o.why != "quiesce" && o.ready())) {
							return false
						}
					}
					return true
				})
				return nil, true
			}
			if e.raceOn {
				for _, o := range e.gs {
					g.vc = vjoin(g.vc, o.vc)
				}
			}
			return nil, false
		case "verifBlocked", "verifGoroutines":
			n := 0
			for _, o := range e.gs {
				if o != g && o.state != GDone {
					n++
				}
			}
			return tt.Const(64, uint64(n)), false
		case "verifTimerCount":
			return tt.Const(64, uint64(len(e.timerDurs))), false
		case "verifTimerDur":
			i := e.argInt(args[0], "verifTimerDur")
			if i < 0 || i >= len(e.timerDurs) {
				panic(mkEnd("engine", "verifTimerDur: no such timer"))
			}
			return e.timerDurs[i], false
		}
		panic(mkEnd("engine", "unknown harness intrinsic "+fn.Name()))
	}
	if fn.Name() == "Reset" && fn.Signature.Recv() != nil && strings.Contains(name, "/pb.") {
		p := args[0].(Ptr)
		e.store(p, e.zero(fn.Signature.Recv().Type().(*types.Pointer).Elem()))
		return nil, false
	}
	for _, p := range noopPrefixes {
		if strings.HasPrefix(name, p) {
			e.intrSeen[p+"* (no-op)"] = true
			res := fn.Signature.Results()
			switch res.Len() {
			case 0:
				return nil, false
			case 1:
				return e.opaqueOf(res.At(0).Type()), false
			}
			tv := make(TupleV, res.Len())
			for i := range tv {
				tv[i] = e.opaqueOf(res.At(i).Type())
			}
			return tv, false
		}
	}
	panic(mkEnd("unsupported", "external function "+name))
}

func (e *Exec) opaqueOf(t types.Type) Value {
	if _, ok := t.Underlying().(*types.Interface); ok {
		return IfaceV{t: opaqueErrType, v: OpaqueV{"opaque " + t.String()}}
	}
	return e.zero(t)
}
