package main

import (
	"fmt"
	"strings"
)

type Op int

const (
	OConst Op = iota
	OVar
	OTrue
	OFalse
	ONot
	OAnd
	OOr
	OEq
	OUlt
	OUle
	OSlt
	OSle
	OAdd
	OSub
	OMul
	OBAnd
	OBOr
	OBXor
	OShl
	OLShr
	OAShr
	OZExt
	OSExt
	OExtract
	OIte
	OUDiv
	OURem
)

var opNames = map[Op]string{ONot: "not", OAnd: "and", OOr: "or", OEq: "=", OUlt: "bvult", OUle: "bvule",
	OSlt: "bvslt", OSle: "bvsle", OAdd: "bvadd", OSub: "bvsub", OMul: "bvmul", OBAnd: "bvand", OBOr: "bvor",
	OBXor: "bvxor", OShl: "bvshl", OLShr: "bvlshr", OAShr: "bvashr", OIte: "ite", OUDiv: "bvudiv", OURem: "bvurem"}

type Term struct {
	op   Op
	w    int // 0 = bool
	args []*Term
	val  uint64
	a, b int // extract hi/lo or ext amount
	name string
	id   int
}

type termKey struct {
	op         Op
	w          int
	val        uint64
	a, b       int
	name       string
	n          int
	x0, x1, x2 int
}

type TermTable struct {
	tab  map[termKey]*Term
	list []*Term
}

func NewTT() *TermTable { return &TermTable{tab: map[termKey]*Term{}} }

func (tt *TermTable) mk(t Term) *Term {
	k := termKey{op: t.op, w: t.w, val: t.val, a: t.a, b: t.b, name: t.name, n: len(t.args), x0: -1, x1: -1, x2: -1}
	switch len(t.args) {
	case 3:
		k.x2 = t.args[2].id
		fallthrough
	case 2:
		k.x1 = t.args[1].id
		fallthrough
	case 1:
		k.x0 = t.args[0].id
	}
	if e, ok := tt.tab[k]; ok {
		return e
	}
	nt := new(Term)
	*nt = t
	nt.id = len(tt.list)
	tt.list = append(tt.list, nt)
	tt.tab[k] = nt
	return nt
}

func mask(w int) uint64 {
	if w >= 64 {
		return ^uint64(0)
	}
	return (uint64(1) << uint(w)) - 1
}

func (tt *TermTable) Const(w int, v uint64) *Term { return tt.mk(Term{op: OConst, w: w, val: v & mask(w)}) }
func (tt *TermTable) Var(w int, name string) *Term { return tt.mk(Term{op: OVar, w: w, name: name}) }
func (tt *TermTable) Bool(b bool) *Term {
	if b {
		return tt.mk(Term{op: OTrue})
	}
	return tt.mk(Term{op: OFalse})
}
func (t *Term) IsConst() bool { return t.op == OConst || t.op == OTrue || t.op == OFalse }
func (t *Term) IsTrue() bool  { return t.op == OTrue }
func (t *Term) IsFalse() bool { return t.op == OFalse }

func sext(v uint64, w int) int64 {
	if w >= 64 {
		return int64(v)
	}
	if v&(1<<uint(w-1)) != 0 {
		return int64(v | ^mask(w))
	}
	return int64(v)
}

func (tt *TermTable) Not(x *Term) *Term {
	switch x.op {
	case OTrue:
		return tt.Bool(false)
	case OFalse:
		return tt.Bool(true)
	case ONot:
		return x.args[0]
	}
	return tt.mk(Term{op: ONot, args: []*Term{x}})
}
func (tt *TermTable) And(x, y *Term) *Term {
	if x.IsFalse() || y.IsFalse() {
		return tt.Bool(false)
	}
	if x.IsTrue() {
		return y
	}
	if y.IsTrue() {
		return x
	}
	if x == y {
		return x
	}
	return tt.mk(Term{op: OAnd, args: []*Term{x, y}})
}
func (tt *TermTable) Or(x, y *Term) *Term {
	if x.IsTrue() || y.IsTrue() {
		return tt.Bool(true)
	}
	if x.IsFalse() {
		return y
	}
	if y.IsFalse() {
		return x
	}
	if x == y {
		return x
	}
	return tt.mk(Term{op: OOr, args: []*Term{x, y}})
}

func (tt *TermTable) Eq(x, y *Term) *Term {
	if x == y {
		return tt.Bool(true)
	}
	if x.IsConst() && y.IsConst() {
		if x.w == 0 {
			return tt.Bool(x.op == y.op)
		}
		return tt.Bool(x.val == y.val)
	}
	if x.id > y.id {
		x, y = y, x
	}
	return tt.mk(Term{op: OEq, args: []*Term{x, y}})
}

func (tt *TermTable) Cmp(op Op, x, y *Term) *Term {
	if x.IsConst() && y.IsConst() {
		switch op {
		case OUlt:
			return tt.Bool(x.val < y.val)
		case OUle:
			return tt.Bool(x.val <= y.val)
		case OSlt:
			return tt.Bool(sext(x.val, x.w) < sext(y.val, y.w))
		case OSle:
			return tt.Bool(sext(x.val, x.w) <= sext(y.val, y.w))
		}
	}
	if x == y {
		return tt.Bool(op == OUle || op == OSle)
	}
	return tt.mk(Term{op: op, args: []*Term{x, y}})
}

func (tt *TermTable) Bin(op Op, x, y *Term) *Term {
	w := x.w
	if x.IsConst() && y.IsConst() {
		var r uint64
		switch op {
		case OAdd:
			r = x.val + y.val
		case OSub:
			r = x.val - y.val
		case OMul:
			r = x.val * y.val
		case OBAnd:
			r = x.val & y.val
		case OBOr:
			r = x.val | y.val
		case OBXor:
			r = x.val ^ y.val
		case OShl:
			if y.val >= uint64(w) {
				r = 0
			} else {
				r = x.val << y.val
			}
		case OLShr:
			if y.val >= uint64(w) {
				r = 0
			} else {
				r = x.val >> y.val
			}
		case OAShr:
			sh := y.val
			if sh >= uint64(w) {
				sh = uint64(w - 1)
			}
			r = uint64(sext(x.val, w) >> sh)
		case OUDiv:
			if y.val == 0 {
				r = mask(w)
			} else {
				r = x.val / y.val
			}
		case OURem:
			if y.val == 0 {
				r = x.val
			} else {
				r = x.val % y.val
			}
		default:
			goto nofold
		}
		return tt.Const(w, r)
	}
nofold:
	if (op == OAdd || op == OBOr || op == OBXor || op == OSub || op == OShl || op == OLShr || op == OAShr) && y.IsConst() && y.val == 0 {
		return x
	}
	if (op == OAdd || op == OBOr || op == OBXor) && x.IsConst() && x.val == 0 {
		return y
	}
	return tt.mk(Term{op: op, w: w, args: []*Term{x, y}})
}

func (tt *TermTable) ZExt(x *Term, w int) *Term {
	if w == x.w {
		return x
	}
	if x.IsConst() {
		return tt.Const(w, x.val)
	}
	return tt.mk(Term{op: OZExt, w: w, args: []*Term{x}, a: w - x.w})
}
func (tt *TermTable) SExt(x *Term, w int) *Term {
	if w == x.w {
		return x
	}
	if x.IsConst() {
		return tt.Const(w, uint64(sext(x.val, x.w)))
	}
	return tt.mk(Term{op: OSExt, w: w, args: []*Term{x}, a: w - x.w})
}
func (tt *TermTable) Trunc(x *Term, w int) *Term {
	if w == x.w {
		return x
	}
	if x.IsConst() {
		return tt.Const(w, x.val)
	}
	if (x.op == OZExt || x.op == OSExt) && x.args[0].w == w {
		return x.args[0]
	}
	return tt.mk(Term{op: OExtract, w: w, args: []*Term{x}, a: w - 1, b: 0})
}
func (tt *TermTable) Ite(c, x, y *Term) *Term {
	if c.IsTrue() {
		return x
	}
	if c.IsFalse() {
		return y
	}
	if x == y {
		return x
	}
	return tt.mk(Term{op: OIte, w: x.w, args: []*Term{c, x, y}})
}

func (t *Term) ref() string {
	switch t.op {
	case OConst:
		if t.w%4 == 0 {
			return fmt.Sprintf("#x%0*x", t.w/4, t.val)
		}
		return fmt.Sprintf("#b%0*b", t.w, t.val)
	case OVar:
		return t.name
	case OTrue:
		return "true"
	case OFalse:
		return "false"
	}
	return fmt.Sprintf("t%d", t.id)
}

func (t *Term) sort() string {
	if t.w == 0 {
		return "Bool"
	}
	return fmt.Sprintf("(_ BitVec %d)", t.w)
}

func (t *Term) body() string {
	var sb strings.Builder
	switch t.op {
	case OZExt:
		fmt.Fprintf(&sb, "((_ zero_extend %d) %s)", t.a, t.args[0].ref())
	case OSExt:
		fmt.Fprintf(&sb, "((_ sign_extend %d) %s)", t.a, t.args[0].ref())
	case OExtract:
		fmt.Fprintf(&sb, "((_ extract %d %d) %s)", t.a, t.b, t.args[0].ref())
	default:
		sb.WriteString("(" + opNames[t.op])
		for _, a := range t.args {
			sb.WriteString(" " + a.ref())
		}
		sb.WriteString(")")
	}
	return sb.String()
}

// ---- evaluation under a model ----

type Model map[string]uint64

func (t *Term) Eval(m Model, memo map[int]uint64) uint64 {
	if v, ok := memo[t.id]; ok {
		return v
	}
	var r uint64
	b2u := func(b bool) uint64 {
		if b {
			return 1
		}
		return 0
	}
	a := func(i int) uint64 { return t.args[i].Eval(m, memo) }
	switch t.op {
	case OConst:
		r = t.val
	case OVar:
		r = m[t.name] & mask64(t.w)
	case OTrue:
		r = 1
	case OFalse:
		r = 0
	case ONot:
		r = 1 - a(0)
	case OAnd:
		r = a(0) & a(1)
	case OOr:
		r = a(0) | a(1)
	case OEq:
		r = b2u(a(0) == a(1))
	case OUlt:
		r = b2u(a(0) < a(1))
	case OUle:
		r = b2u(a(0) <= a(1))
	case OSlt:
		r = b2u(sext(a(0), t.args[0].w) < sext(a(1), t.args[1].w))
	case OSle:
		r = b2u(sext(a(0), t.args[0].w) <= sext(a(1), t.args[1].w))
	case OAdd:
		r = (a(0) + a(1)) & mask(t.w)
	case OSub:
		r = (a(0) - a(1)) & mask(t.w)
	case OMul:
		r = (a(0) * a(1)) & mask(t.w)
	case OBAnd:
		r = a(0) & a(1)
	case OBOr:
		r = a(0) | a(1)
	case OBXor:
		r = a(0) ^ a(1)
	case OShl:
		if a(1) >= uint64(t.w) {
			r = 0
		} else {
			r = (a(0) << a(1)) & mask(t.w)
		}
	case OLShr:
		if a(1) >= uint64(t.w) {
			r = 0
		} else {
			r = a(0) >> a(1)
		}
	case OAShr:
		sh := a(1)
		if sh >= uint64(t.w) {
			sh = uint64(t.w - 1)
		}
		r = uint64(sext(a(0), t.w)>>sh) & mask(t.w)
	case OZExt:
		r = a(0)
	case OSExt:
		r = uint64(sext(a(0), t.args[0].w)) & mask(t.w)
	case OExtract:
		r = (a(0) >> uint(t.b)) & mask(t.w)
	case OIte:
		if a(0) == 1 {
			r = a(1)
		} else {
			r = a(2)
		}
	case OUDiv:
		if a(1) == 0 {
			r = mask(t.w)
		} else {
			r = a(0) / a(1)
		}
	case OURem:
		if a(1) == 0 {
			r = a(0)
		} else {
			r = a(0) % a(1)
		}
	default:
		panic("eval op")
	}
	memo[t.id] = r
	return r
}

func mask64(w int) uint64 {
	if w == 0 {
		return 1
	}
	return mask(w)
}
