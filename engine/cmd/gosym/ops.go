package main

import (
	"fmt"
	"go/token"
	"go/types"

	"golang.org/x/tools/go/ssa"
)

func (e *Exec) binop(in *ssa.BinOp, x, y Value) Value {
	tt := e.tt
	op := in.Op
	if _, ok := x.(OpaqueV); ok {
		return OpaqueV{"float"}
	}
	if _, ok := y.(OpaqueV); ok {
		return OpaqueV{"float"}
	}
	switch a := x.(type) {
	case *Term:
		b, ok := y.(*Term)
		if !ok {
			panic(fmt.Sprintf("binop term vs %T at %s", y, e.pos2(in)))
		}
		if a.w == 0 { // bool
			switch op {
			case token.EQL:
				return tt.Eq(a, b)
			case token.NEQ:
				return tt.Not(tt.Eq(a, b))
			case token.AND, token.LAND:
				return tt.And(a, b)
			case token.OR, token.LOR:
				return tt.Or(a, b)
			}
			panic("bool binop " + op.String())
		}
		signed := isSignedT(in.X.Type())
		switch op {
		case token.ADD:
			return tt.Bin(OAdd, a, b)
		case token.SUB:
			return tt.Bin(OSub, a, b)
		case token.MUL:
			return tt.Bin(OMul, a, b)
		case token.QUO, token.REM:
			e.check(tt.Not(tt.Eq(b, tt.Const(b.w, 0))), in, "integer divide by zero")
			if signed {
				// implement signed division via unsigned on magnitudes
				na := tt.Cmp(OSlt, a, tt.Const(a.w, 0))
				nb := tt.Cmp(OSlt, b, tt.Const(b.w, 0))
				ua := tt.Ite(na, tt.Bin(OSub, tt.Const(a.w, 0), a), a)
				ub := tt.Ite(nb, tt.Bin(OSub, tt.Const(b.w, 0), b), b)
				if op == token.QUO {
					q := tt.Bin(OUDiv, ua, ub)
					return tt.Ite(tt.Not(tt.Eq(na, nb)), tt.Bin(OSub, tt.Const(a.w, 0), q), q)
				}
				r := tt.Bin(OURem, ua, ub)
				return tt.Ite(na, tt.Bin(OSub, tt.Const(a.w, 0), r), r)
			}
			if op == token.QUO {
				return tt.Bin(OUDiv, a, b)
			}
			return tt.Bin(OURem, a, b)
		case token.AND:
			return tt.Bin(OBAnd, a, b)
		case token.OR:
			return tt.Bin(OBOr, a, b)
		case token.XOR:
			return tt.Bin(OBXor, a, b)
		case token.AND_NOT:
			return tt.Bin(OBAnd, a, tt.Bin(OBXor, b, tt.Const(b.w, ^uint64(0))))
		case token.SHL, token.SHR:
			sh := b
			if sh.w < a.w {
				sh = tt.ZExt(sh, a.w)
			} else if sh.w > a.w {
				// saturate large shift counts
				big := tt.Cmp(OUle, tt.Const(sh.w, uint64(a.w)), sh)
				sh = tt.Ite(big, tt.Const(a.w, uint64(a.w)), tt.Trunc(sh, a.w))
			}
			if op == token.SHL {
				return tt.Bin(OShl, a, sh)
			}
			if signed {
				return tt.Bin(OAShr, a, sh)
			}
			return tt.Bin(OLShr, a, sh)
		case token.EQL:
			return tt.Eq(a, b)
		case token.NEQ:
			return tt.Not(tt.Eq(a, b))
		case token.LSS:
			if signed {
				return tt.Cmp(OSlt, a, b)
			}
			return tt.Cmp(OUlt, a, b)
		case token.LEQ:
			if signed {
				return tt.Cmp(OSle, a, b)
			}
			return tt.Cmp(OUle, a, b)
		case token.GTR:
			if signed {
				return tt.Cmp(OSlt, b, a)
			}
			return tt.Cmp(OUlt, b, a)
		case token.GEQ:
			if signed {
				return tt.Cmp(OSle, b, a)
			}
			return tt.Cmp(OUle, b, a)
		}
	case StrV:
		b := y.(StrV)
		switch op {
		case token.ADD:
			if a.sym == nil && b.sym == nil {
				return StrV{s: a.s + b.s}
			}
			panic(mkEnd("unsupported", "symbolic string concat"))
		case token.EQL:
			return e.strEq(a, b)
		case token.NEQ:
			return tt.Not(e.strEq(a, b))
		case token.LSS, token.GTR, token.LEQ, token.GEQ:
			if a.sym == nil && b.sym == nil {
				var r bool
				switch op {
				case token.LSS:
					r = a.s < b.s
				case token.GTR:
					r = a.s > b.s
				case token.LEQ:
					r = a.s <= b.s
				case token.GEQ:
					r = a.s >= b.s
				}
				return tt.Bool(r)
			}
		}
	case Ptr:
		b := y.(Ptr)
		eq := samePtr(a, b)
		if op == token.EQL {
			return tt.Bool(eq)
		}
		return tt.Bool(!eq)
	case IfaceV:
		eq := e.ifaceEq(a, y.(IfaceV), in)
		if op == token.EQL {
			return eq
		}
		return tt.Not(eq)
	case SliceV: // only comparison with nil
		eq := tt.Bool(a.arr.obj == nil && y.(SliceV).arr.obj == nil)
		if op == token.EQL {
			return eq
		}
		return tt.Not(eq)
	case MapV:
		eq := tt.Bool(a.m == y.(MapV).m)
		if op == token.EQL {
			return eq
		}
		return tt.Not(eq)
	case ChanV:
		eq := tt.Bool(a.c == y.(ChanV).c)
		if op == token.EQL {
			return eq
		}
		return tt.Not(eq)
	case FuncV:
		b := y.(FuncV)
		eq := tt.Bool(a.fn == nil && a.native == nil && b.fn == nil && b.native == nil)
		if op == token.EQL {
			return eq
		}
		return tt.Not(eq)
	case *StructV:
		eq := e.valEq(a, y, in)
		if op == token.EQL {
			return eq
		}
		return tt.Not(eq)
	}
	panic(mkEnd("unsupported", fmt.Sprintf("binop %s on %T at %s", op, x, e.pos2(in))))
}

func (e *Exec) valEq(x, y Value, in ssa.Instruction) *Term {
	tt := e.tt
	switch a := x.(type) {
	case *Term:
		return tt.Eq(a, y.(*Term))
	case StrV:
		return e.strEq(a, y.(StrV))
	case Ptr:
		return tt.Bool(samePtr(a, y.(Ptr)))
	case IfaceV:
		return e.ifaceEq(a, y.(IfaceV), in)
	case ChanV:
		return tt.Bool(a.c == y.(ChanV).c)
	case *StructV:
		b := y.(*StructV)
		r := tt.Bool(true)
		for i := range a.f {
			r = tt.And(r, e.valEq(a.f[i], b.f[i], in))
		}
		return r
	case *ArrayV:
		b := y.(*ArrayV)
		r := tt.Bool(true)
		for i := range a.e {
			r = tt.And(r, e.valEq(a.e[i], b.e[i], in))
		}
		return r
	case OpaqueV:
		return tt.Bool(a == y)
	case *ctxObj:
		b, ok := y.(*ctxObj)
		return tt.Bool(ok && a == b)
	}
	panic(mkEnd("unsupported", fmt.Sprintf("equality on %T at %s", x, e.pos2(in))))
}

func (e *Exec) ifaceEq(a, b IfaceV, in ssa.Instruction) *Term {
	if a.t == nil || b.t == nil {
		return e.tt.Bool(a.t == nil && b.t == nil)
	}
	if !types.Identical(a.t, b.t) {
		return e.tt.Bool(false)
	}
	return e.valEq(a.v, b.v, in)
}

// ---- strings ----

func (e *Exec) strLen(s StrV) *Term {
	if s.sym != nil {
		return s.sym.ln
	}
	return e.tt.Const(64, uint64(len(s.s)))
}

func (e *Exec) strByte(s StrV, i int) *Term {
	if s.sym == nil {
		return e.tt.Const(8, uint64(s.s[i]))
	}
	return e.load(s.sym.arr.elem(e.tt.Bin(OAdd, s.sym.off, e.tt.Const(64, uint64(i))))).(*Term)
}

func (e *Exec) strIndex(s StrV, idx *Term, in ssa.Instruction) Value {
	e.check(e.tt.Cmp(OUlt, idx, e.strLen(s)), in, "string index out of range")
	if s.sym != nil {
		return e.load(s.sym.arr.elem(e.tt.Bin(OAdd, s.sym.off, idx)))
	}
	k := e.concretize(idx, "string index")
	return e.tt.Const(8, uint64(s.s[k]))
}

func (e *Exec) strEq(a, b StrV) *Term {
	tt := e.tt
	if a.sym == nil && b.sym == nil {
		return tt.Bool(a.s == b.s)
	}
	la, lb := e.strLen(a), e.strLen(b)
	// bound on lengths: use backing capacity for symbolic, actual for concrete
	max := 0
	for _, s := range []StrV{a, b} {
		n := len(s.s)
		if s.sym != nil {
			get, _ := locate(s.sym.arr)
			n = len(get().(*ArrayV).e)
		}
		if n > max {
			max = n
		}
	}
	r := tt.Eq(la, lb)
	for i := 0; i < max; i++ {
		in := tt.Cmp(OUlt, tt.Const(64, uint64(i)), la)
		var ba, bb *Term
		ba, bb = e.strByteOr0(a, i), e.strByteOr0(b, i)
		r = tt.And(r, tt.Or(tt.Not(in), tt.Eq(ba, bb)))
	}
	return r
}

func (e *Exec) strByteOr0(s StrV, i int) *Term {
	if s.sym == nil {
		if i < len(s.s) {
			return e.tt.Const(8, uint64(s.s[i]))
		}
		return e.tt.Const(8, 0)
	}
	get, _ := locate(s.sym.arr)
	arr := get().(*ArrayV)
	idx := e.tt.Bin(OAdd, s.sym.off, e.tt.Const(64, uint64(i)))
	if idx.IsConst() {
		if int(idx.val) < len(arr.e) {
			return arr.e[idx.val].(*Term)
		}
		return e.tt.Const(8, 0)
	}
	return e.load(s.sym.arr.elem(idx)).(*Term)
}

// ---- conversions ----

func (e *Exec) convert(x Value, from, to types.Type, in ssa.Instruction) Value {
	tt := e.tt
	fu, tu := from.Underlying(), to.Underlying()
	if t, ok := x.(*Term); ok && isIntT(tu) {
		wf, wt := t.w, width(tu)
		switch {
		case wt < wf:
			return tt.Trunc(t, wt)
		case isSignedT(fu):
			return tt.SExt(t, wt)
		default:
			return tt.ZExt(t, wt)
		}
	}
	if _, ok := x.(OpaqueV); ok {
		return x
	}
	if tb, ok := tu.(*types.Basic); ok && tb.Info()&types.IsFloat != 0 {
		return OpaqueV{"float"}
	}
	switch v := x.(type) {
	case StrV: // string -> []byte
		if _, ok := tu.(*types.Slice); ok {
			n := e.strLen(v)
			if v.sym == nil {
				arr := &ArrayV{}
				for i := 0; i < len(v.s); i++ {
					arr.e = append(arr.e, tt.Const(8, uint64(v.s[i])))
				}
				o := e.newObj(nil, arr, "[]byte(string)")
				return SliceV{arr: Ptr{obj: o}, off: tt.Const(64, 0), ln: n, cp: n}
			}
			return e.cloneSlice(*v.sym)
		}
		return v
	case SliceV: // []byte -> string
		if tb, ok := tu.(*types.Basic); ok && tb.Info()&types.IsString != 0 {
			return e.sliceToStr(v)
		}
		return v
	case Ptr:
		return v // unsafe.Pointer <-> *T
	}
	panic(mkEnd("unsupported", fmt.Sprintf("convert %s -> %s (%T) at %s", from, to, x, e.pos2(in))))
}

func (e *Exec) sliceToStr(v SliceV) StrV {
	if v.arr.obj == nil {
		return StrV{}
	}
	// concrete if length and all bytes are concrete
	if v.ln.IsConst() && v.off.IsConst() {
		get, _ := locate(v.arr)
		arr := get().(*ArrayV)
		bs := make([]byte, v.ln.val)
		all := true
		for i := range bs {
			t := arr.e[int(v.off.val)+i].(*Term)
			if !t.IsConst() {
				all = false
				break
			}
			bs[i] = byte(t.val)
		}
		if all {
			return StrV{s: string(bs)}
		}
	}
	c := e.cloneSlice(v)
	return StrV{sym: &c}
}

func (e *Exec) cloneSlice(v SliceV) SliceV {
	get, _ := locate(v.arr)
	arr := get().(*ArrayV)
	n := &ArrayV{e: make([]Value, len(arr.e))}
	copy(n.e, arr.e)
	o := e.newObj(nil, n, "clone")
	return SliceV{arr: Ptr{obj: o}, off: v.off, ln: v.ln, cp: v.ln}
}

// ---- slices ----

func (e *Exec) sliceOp(in *ssa.Slice, fr *Frame) Value {
	tt := e.tt
	x := e.get(fr, in.X)
	var lo, hi, max *Term
	if in.Low != nil {
		lo = e.toI64(e.get(fr, in.Low), in.Low.Type())
	} else {
		lo = tt.Const(64, 0)
	}
	if in.High != nil {
		hi = e.toI64(e.get(fr, in.High), in.High.Type())
	}
	if in.Max != nil {
		max = e.toI64(e.get(fr, in.Max), in.Max.Type())
	}
	switch x := x.(type) {
	case SliceV:
		if x.arr.obj == nil {
			x.off, x.ln, x.cp = tt.Const(64, 0), tt.Const(64, 0), tt.Const(64, 0)
		}
		if hi == nil {
			hi = x.ln
		}
		cp := x.cp
		if max != nil {
			e.check(tt.And(tt.Cmp(OUle, hi, max), tt.Cmp(OUle, max, x.cp)), in, "slice bounds out of range (max)")
			cp = max
		}
		e.check(tt.And(tt.Cmp(OUle, lo, hi), tt.Cmp(OUle, hi, cp)), in, "slice bounds out of range")
		return SliceV{arr: x.arr, off: e.subst(tt.Bin(OAdd, x.off, lo)), ln: e.subst(tt.Bin(OSub, hi, lo)), cp: e.subst(tt.Bin(OSub, cp, lo))}
	case Ptr: // *array
		if x.obj == nil {
			panic(e.panicEnd(in, "slice of nil array pointer"))
		}
		n := tt.Const(64, uint64(in.X.Type().Underlying().(*types.Pointer).Elem().Underlying().(*types.Array).Len()))
		if hi == nil {
			hi = n
		}
		cp := n
		if max != nil {
			cp = max
		}
		e.check(tt.And(tt.Cmp(OUle, lo, hi), tt.And(tt.Cmp(OUle, hi, cp), tt.Cmp(OUle, cp, n))), in, "slice bounds out of range")
		return SliceV{arr: x, off: lo, ln: tt.Bin(OSub, hi, lo), cp: tt.Bin(OSub, cp, lo)}
	case StrV:
		ln := e.strLen(x)
		if hi == nil {
			hi = ln
		}
		e.check(tt.And(tt.Cmp(OUle, lo, hi), tt.Cmp(OUle, hi, ln)), in, "string slice bounds out of range")
		if x.sym == nil {
			l := e.concretize(lo, "string slice lo")
			h := e.concretize(hi, "string slice hi")
			return StrV{s: x.s[l:h]}
		}
		s := SliceV{arr: x.sym.arr, off: tt.Bin(OAdd, x.sym.off, lo), ln: tt.Bin(OSub, hi, lo), cp: tt.Bin(OSub, hi, lo)}
		return StrV{sym: &s}
	}
	panic(fmt.Sprintf("slice of %T", x))
}

const maxMake = 4096

func (e *Exec) makeSlice(elem types.Type, ln, cp *Term, in ssa.Instruction) Value {
	tt := e.tt
	e.check(tt.And(tt.Cmp(OSle, tt.Const(64, 0), ln), tt.Cmp(OSle, ln, cp)), in, "makeslice: len out of range")
	n := maxMake
	cp = e.subst(cp)
	ln = e.subst(ln)
	if cp.IsConst() {
		if cp.val > 1<<20 {
			panic(mkEnd("allocbound", "allocation larger than 1 MiB elements at " + e.pos2(in)))
		}
		n = int(cp.val)
	} else {
		// Bounded allocation: sizes beyond the bound are outside the claim (allocation size is
		// environment dependent); the path is cut like an assumption and counted separately.
		if !e.branch(tt.Cmp(OUle, cp, tt.Const(64, uint64(e.allocBound())))) {
			panic(mkEnd("allocbound", "symbolic allocation exceeds the allocation bound at " + e.pos2(in)))
		}
		n = e.allocBound()
	}
	arr := &ArrayV{e: make([]Value, n)}
	for i := range arr.e {
		arr.e[i] = e.zero(elem)
	}
	o := e.newObj(nil, arr, "make")
	return SliceV{arr: Ptr{obj: o}, off: tt.Const(64, 0), ln: ln, cp: cp}
}

func (e *Exec) allocBound() int { return int(e.param("ALLOC", 64)) }

// sliceElems returns the concrete element pointers of a slice after concretizing off/len.
func (e *Exec) sliceConcrete(s SliceV, what string) (base int, n int) {
	if s.arr.obj == nil {
		return 0, 0
	}
	return int(e.concretize(s.off, what+" off")), int(e.concretize(s.ln, what+" len"))
}

func (e *Exec) builtin(b *ssa.Builtin, args []Value, in *ssa.Call) Value {
	tt := e.tt
	switch b.Name() {
	case "len":
		switch a := args[0].(type) {
		case SliceV:
			if a.arr.obj == nil {
				return tt.Const(64, 0)
			}
			return a.ln
		case StrV:
			return e.strLen(a)
		case MapV:
			if a.m == nil {
				return tt.Const(64, 0)
			}
			return tt.Const(64, uint64(len(a.m.entries)))
		case ChanV:
			return tt.Const(64, uint64(len(a.c.buf)))
		case Ptr: // *array
			return tt.Const(64, uint64(in.Call.Args[0].Type().Underlying().(*types.Pointer).Elem().Underlying().(*types.Array).Len()))
		case *ArrayV:
			return tt.Const(64, uint64(len(a.e)))
		}
	case "cap":
		switch a := args[0].(type) {
		case SliceV:
			if a.arr.obj == nil {
				return tt.Const(64, 0)
			}
			return a.cp
		case ChanV:
			return tt.Const(64, uint64(a.c.cap))
		}
	case "append":
		return e.appendOp(args[0].(SliceV), args[1], in)
	case "copy":
		return e.copyOp(args[0].(SliceV), args[1], in)
	case "delete":
		m := args[0].(MapV)
		if m.m != nil {
			e.mapDelete(m.m, args[1])
		}
		return nil
	case "close":
		c := args[0].(ChanV)
		if c.c == nil {
			panic(e.panicEnd(in, "close of nil channel"))
		}
		if c.c.closed {
			panic(e.panicEnd(in, "close of closed channel"))
		}
		c.c.closed = true
		e.rel(e.cur, c.c)
		return nil
	case "min", "max":
		a, bb := args[0].(*Term), args[1].(*Term)
		signed := isSignedT(in.Call.Args[0].Type())
		var lt *Term
		if signed {
			lt = tt.Cmp(OSlt, a, bb)
		} else {
			lt = tt.Cmp(OUlt, a, bb)
		}
		if b.Name() == "min" {
			return tt.Ite(lt, a, bb)
		}
		return tt.Ite(lt, bb, a)
	case "print", "println":
		return nil
	case "ssa:wrapnilchk":
		return args[0]
	}
	panic(mkEnd("unsupported", fmt.Sprintf("builtin %s(%T %+v) at %s", b.Name(), args[0], args[0], e.pos2(in))))
}

func (e *Exec) appendOp(s SliceV, more Value, in *ssa.Call) Value {
	tt := e.tt
	var src SliceV
	switch m := more.(type) {
	case SliceV:
		src = m
	case StrV:
		src = e.convert(m, types.Typ[types.String], types.NewSlice(types.Typ[types.Byte]), in).(SliceV)
	}
	if src.arr.obj == nil {
		return s
	}
	sb, sn := e.sliceConcrete(src, "append src")
	if sn == 0 {
		return s
	}
	if s.arr.obj == nil {
		s.off, s.ln, s.cp = tt.Const(64, 0), tt.Const(64, 0), tt.Const(64, 0)
	}
	newLen := tt.Bin(OAdd, s.ln, tt.Const(64, uint64(sn)))
	getS, _ := locate(src.arr)
	srcArr := getS().(*ArrayV)
	vals := make([]Value, sn)
	for i := 0; i < sn; i++ {
		vals[i] = copyVal(srcArr.e[sb+i])
	}
	if s.arr.obj != nil && e.branch(tt.Cmp(OUle, newLen, s.cp)) {
		// in place
		off, ln := int(e.concretize(s.off, "append off")), int(e.concretize(s.ln, "append len"))
		get, _ := locate(s.arr)
		arr := get().(*ArrayV)
		for i := 0; i < sn; i++ {
			arr.e[off+ln+i] = vals[i]
		}
		return SliceV{arr: s.arr, off: s.off, ln: newLen, cp: s.cp}
	}
	// reallocate: new capacity == new length
	off, ln := 0, 0
	var old *ArrayV
	if s.arr.obj != nil {
		off, ln = int(e.concretize(s.off, "append off")), int(e.concretize(s.ln, "append len"))
		get, _ := locate(s.arr)
		old = get().(*ArrayV)
	}
	arr := &ArrayV{e: make([]Value, ln+sn)}
	for i := 0; i < ln; i++ {
		arr.e[i] = copyVal(old.e[off+i])
	}
	for i := 0; i < sn; i++ {
		arr.e[ln+i] = vals[i]
	}
	o := e.newObj(nil, arr, "append")
	n := tt.Const(64, uint64(ln+sn))
	return SliceV{arr: Ptr{obj: o}, off: tt.Const(64, 0), ln: n, cp: n}
}

func (e *Exec) copyOp(dst SliceV, srcv Value, in *ssa.Call) Value {
	tt := e.tt
	var src SliceV
	switch m := srcv.(type) {
	case SliceV:
		src = m
	case StrV:
		src = e.convert(m, types.Typ[types.String], types.NewSlice(types.Typ[types.Byte]), in).(SliceV)
	}
	if dst.arr.obj == nil || src.arr.obj == nil {
		return tt.Const(64, 0)
	}
	db, dn := e.sliceConcrete(dst, "copy dst")
	sb, sn := e.sliceConcrete(src, "copy src")
	n := dn
	if sn < n {
		n = sn
	}
	getS, _ := locate(src.arr)
	getD, _ := locate(dst.arr)
	sa, da := getS().(*ArrayV), getD().(*ArrayV)
	tmp := make([]Value, n)
	for i := 0; i < n; i++ {
		tmp[i] = copyVal(sa.e[sb+i])
	}
	for i := 0; i < n; i++ {
		da.e[db+i] = tmp[i]
	}
	return tt.Const(64, uint64(n))
}

// ---- maps ----

func (e *Exec) keyEq(a, b Value) *Term {
	return e.valEq(a, b, nil)
}

func (e *Exec) accessMap(m *MapObj, write bool) {
	if e.raceOn && m != nil {
		e.access(Ptr{obj: &Object{id: -m.id, tag: "map"}}, write)
	}
}

func (e *Exec) mapGet(m *MapObj, k Value) (Value, bool) {
	if m == nil {
		return nil, false
	}
	e.accessMap(m, false)
	for _, en := range m.entries {
		if e.branch(e.keyEq(en.k, k)) {
			return en.v, true
		}
	}
	return nil, false
}

func (e *Exec) mapSet(m *MapObj, k, v Value) {
	e.accessMap(m, true)
	for i, en := range m.entries {
		if e.branch(e.keyEq(en.k, k)) {
			m.entries[i].v = v
			return
		}
	}
	m.entries = append(m.entries, MapEntry{k, v})
}

func (e *Exec) mapDelete(m *MapObj, k Value) {
	e.accessMap(m, true)
	for i, en := range m.entries {
		if e.branch(e.keyEq(en.k, k)) {
			m.entries = append(m.entries[:i:i], m.entries[i+1:]...)
			return
		}
	}
}

type rangeIter struct {
	m    []MapEntry
	s    StrV
	isS  bool
	i    int
	perm bool
}

func (e *Exec) rangeStart(x Value) Value {
	switch x := x.(type) {
	case MapV:
		it := &rangeIter{}
		e.accessMap(x.m, false)
		if x.m != nil {
			it.m = append(it.m, x.m.entries...)
		}
		return it
	case StrV:
		return &rangeIter{s: x, isS: true}
	}
	panic(fmt.Sprintf("range over %T", x))
}

func (e *Exec) rangeNext(it *rangeIter, in *ssa.Next) Value {
	tt := e.tt
	if it.isS {
		if it.s.sym != nil {
			panic(mkEnd("unsupported", "range over symbolic string"))
		}
		if it.i >= len(it.s.s) {
			return TupleV{tt.Bool(false), tt.Const(64, 0), tt.Const(32, 0)}
		}
		// ASCII only
		c := it.s.s[it.i]
		if c >= 0x80 {
			panic(mkEnd("unsupported", "non-ASCII string range"))
		}
		r := TupleV{tt.Bool(true), tt.Const(64, uint64(it.i)), tt.Const(32, uint64(c))}
		it.i++
		return r
	}
	if len(it.m) == 0 {
		return TupleV{tt.Bool(false), nil, nil}
	}
	// nondeterministic iteration order: pick any remaining entry
	k := 0
	if len(it.m) > 1 && e.mapOrderNondet() {
		k = e.choose(len(it.m))
	}
	en := it.m[k]
	it.m = append(it.m[:k:k], it.m[k+1:]...)
	return TupleV{tt.Bool(true), en.k, en.v}
}

func (e *Exec) mapOrderNondet() bool { return true }
