// gosym: bounded symbolic executor for go/ssa talking to an SMT solver.
//
// Usage: gosym -spec run.json
//
// The run spec names the repository to load (its current working tree), the overlay files
// (harnesses injected into the repository's packages), and a list of jobs; each job is one
// harness entry point explored exhaustively within its bounds. Results go to the spec's
// "out" file as JSON; nothing is decided here about violations versus known findings — that
// is the driver's job (vcheck).
package main

import (
	"encoding/json"
	"flag"
	"fmt"
	"os"
	"runtime/debug"
	"runtime/pprof"
	"sort"
	"strings"
	"sync"
	"sync/atomic"
	"time"

	"golang.org/x/tools/go/packages"
	"golang.org/x/tools/go/ssa"
	"golang.org/x/tools/go/ssa/ssautil"
)

type JobSpec struct {
	Name       string            `json:"name"`
	Entry      string            `json:"entry"` // <pkgpath>.<Func>
	Params     map[string]int64  `json:"params"`
	Preempts   int               `json:"preempts"`
	Steps      int               `json:"steps"`
	Stubs      map[string]string `json:"stubs"` // qualified ssa name -> <pkgpath>.<harnessFunc>
	MaxPaths   int               `json:"maxpaths"`
	TimeoutS   int               `json:"timeout_s"`
	SamplePass int               `json:"sample_pass"`
	Prefix     []int             `json:"prefix"` // replay exactly this decision prefix (single path)
	MaxTicks   int               `json:"max_ticks"`
	Trace      bool              `json:"trace"`
}

type RunSpec struct {
	Repo        string            `json:"repo"`
	Overlays    map[string]string `json:"overlays"`
	Pkgs        []string          `json:"pkgs"`
	Jobs        []JobSpec         `json:"jobs"`
	Solver      string            `json:"solver"`
	Workers     int               `json:"workers"`
	Cross       []string          `json:"cross"`
	CrossSample int               `json:"cross_sample"`
	Out         string            `json:"out"`
}

type VecEntry struct {
	K string `json:"k"`           // bytes | int | choose
	V uint64 `json:"v,omitempty"` // int / choose value
	B string `json:"b,omitempty"` // hex bytes
	C int    `json:"c,omitempty"` // extra capacity (bytes)
}

type ObsEntry struct {
	Tag string `json:"tag"`
	V   string `json:"v"`
}

type Finding struct {
	Kind     string            `json:"kind"`
	Msg      string            `json:"msg"`
	Key      string            `json:"key"`
	Count    int               `json:"count"`
	Model    map[string]uint64 `json:"model"`
	Vector   []VecEntry        `json:"vector"`
	Observes []ObsEntry        `json:"observes,omitempty"`
	Prefix   []int             `json:"prefix"`
	Trace    []string          `json:"trace,omitempty"`
	Sched    int               `json:"sched"`       // number of scheduling decisions with >1 alternative on this path
	Internal int               `json:"internal_nd"` // engine-internal nondeterministic choices (map order, select, pool)
	Stack    []string          `json:"stack,omitempty"`
}

type AssertStat struct {
	Pass int `json:"pass"`
	Fail int `json:"fail"`
}

type JobResult struct {
	Name         string                 `json:"name"`
	Entry        string                 `json:"entry"`
	Params       map[string]int64       `json:"params"`
	Preempts     int                    `json:"preempts"`
	Paths        int                    `json:"paths"`
	Decisions    int                    `json:"decisions"`
	Queries      int                    `json:"queries"`
	CacheHits    int                    `json:"cache_hits"`
	SolverS      float64                `json:"solver_s"`
	WallS        float64                `json:"wall_s"`
	Steps        int                    `json:"steps"`
	Kinds        map[string]int         `json:"kinds"`
	Findings     []*Finding             `json:"findings"`
	Samples      []*Finding             `json:"samples"`
	Functions    []string               `json:"functions"`
	Intrinsics   []string               `json:"intrinsics"`
	Stubs        []string               `json:"stubs_hit"`
	Reach        map[string]int         `json:"reach"`
	Asserts      map[string]*AssertStat `json:"asserts"`
	Assumes      map[string]*AssertStat `json:"assumes"`
	UnsatClosed  int                    `json:"unsat_closed"`
	CrossChecked int                    `json:"cross_checked"`
	CrossBad     []string               `json:"cross_bad,omitempty"`
	TimedOut     bool                   `json:"timed_out"`
	StoppedEarly bool                   `json:"stopped_early"` // thousands of paths ended in the same violation: no need to enumerate the rest
	Inconclusive int                    `json:"inconclusive"`
	Error        string                 `json:"error,omitempty"`
}

type RunResult struct {
	LoadS  float64      `json:"load_s"`
	Solver string       `json:"solver"`
	Jobs   []*JobResult `json:"jobs"`
	Error  string       `json:"error,omitempty"`
}

var defaultPkgs = []string{".", "./region", "./hrpc", "./filter", "./zk", "./compression", "./compression/snappy", "./pb", "modernc.org/b/v2",
	"net", "io", "time", "math/bits", "bytes", "encoding/binary", "slices", "errors", "strings", "bufio", "unicode/utf8",
	"strconv", "sort", "context", "cmp",
	"google.golang.org/protobuf/encoding/protowire", "google.golang.org/protobuf/proto"}

var initAllow = []string{"github.com/tsuna/gohbase", "github.com/tsuna/gohbase/region", "github.com/tsuna/gohbase/hrpc",
	"github.com/tsuna/gohbase/compression", "github.com/tsuna/gohbase/compression/snappy", "github.com/tsuna/gohbase/filter", "io", "bufio", "strconv",
	"google.golang.org/protobuf/encoding/protowire"}

func fatal(out string, msg string) {
	fmt.Fprintln(os.Stderr, "gosym: "+msg)
	if out != "" {
		b, _ := json.Marshal(RunResult{Error: msg})
		os.WriteFile(out, b, 0o644)
	}
	os.Exit(2)
}

func findFunc(prog *ssa.Program, qual string) *ssa.Function {
	i := strings.LastIndex(qual, ".")
	if i < 0 {
		return nil
	}
	pkgPath, name := qual[:i], qual[i+1:]
	for _, p := range prog.AllPackages() {
		if p.Pkg.Path() == pkgPath {
			return p.Func(name)
		}
	}
	return nil
}

func main() {
	specPath := flag.String("spec", "", "run spec (json)")
	self := flag.Int("selftest", 0, "cross-check folding / evaluation / solver semantics on N random cases and exit")
	flag.Parse()
	if *self > 0 {
		selfTest("z3-new", *self)
		selfTest("z3", *self/4)
		return
	}
	debug.SetGCPercent(800)
	if pf := os.Getenv("GOSYM_CPUPROFILE"); pf != "" {
		f, _ := os.Create(pf)
		pprof.StartCPUProfile(f)
		defer pprof.StopCPUProfile()
	}
	raw, err := os.ReadFile(*specPath)
	if err != nil {
		fatal("", err.Error())
	}
	var spec RunSpec
	if err := json.Unmarshal(raw, &spec); err != nil {
		fatal("", err.Error())
	}
	if spec.Solver == "" {
		spec.Solver = "z3-new"
	}
	if spec.Workers <= 0 {
		spec.Workers = 16
	}
	if spec.Repo == "" {
		spec.Repo = "/repo"
	}
	t0 := time.Now()
	ov := map[string][]byte{}
	for virt, real := range spec.Overlays {
		b, err := os.ReadFile(real)
		if err != nil {
			fatal(spec.Out, err.Error())
		}
		ov[virt] = b
	}
	cfg := &packages.Config{Mode: packages.LoadSyntax, Dir: spec.Repo, Overlay: ov,
		Env: append(os.Environ(), "GOFLAGS=-mod=mod", "GOPROXY=off", "GOSUMDB=off", "GOTOOLCHAIN=local")}
	pkgs, err := packages.Load(cfg, append(append([]string{}, defaultPkgs...), spec.Pkgs...)...)
	if err != nil {
		fatal(spec.Out, "load: "+err.Error())
	}
	nerr := 0
	var errs []string
	packages.Visit(pkgs, nil, func(p *packages.Package) {
		for _, e := range p.Errors {
			nerr++
			errs = append(errs, e.Error())
		}
	})
	if nerr > 0 {
		fatal(spec.Out, "harness or repository does not type-check: "+strings.Join(errs, "; "))
	}
	prog, spkgs := ssautil.Packages(pkgs, ssa.InstantiateGenerics)
	for _, p := range spkgs {
		if p != nil {
			p.Build()
		}
	}
	res := &RunResult{LoadS: time.Since(t0).Seconds(), Solver: spec.Solver}
	for i := range spec.Jobs {
		jr := runJob(prog, &spec, &spec.Jobs[i])
		res.Jobs = append(res.Jobs, jr)
		fmt.Fprintf(os.Stderr, "job %-28s paths=%-7d queries=%-7d wall=%.1fs kinds=%v incon=%d timeout=%v\n",
			jr.Name, jr.Paths, jr.Queries, jr.WallS, jr.Kinds, jr.Inconclusive, jr.TimedOut)
	}
	b, _ := json.MarshalIndent(res, "", " ")
	if spec.Out == "" {
		os.Stdout.Write(b)
	} else if err := os.WriteFile(spec.Out, b, 0o644); err != nil {
		fatal("", err.Error())
	}
}

type crossQuery struct {
	script string
	want   string
}

func runJob(prog *ssa.Program, spec *RunSpec, job *JobSpec) *JobResult {
	jr := &JobResult{Name: job.Name, Entry: job.Entry, Params: job.Params, Preempts: job.Preempts,
		Kinds: map[string]int{}, Reach: map[string]int{}, Asserts: map[string]*AssertStat{}, Assumes: map[string]*AssertStat{}}
	entryFn := findFunc(prog, job.Entry)
	if entryFn == nil {
		jr.Error = "entry not found: " + job.Entry
		return jr
	}
	stubs := map[string]*ssa.Function{}
	for k, v := range job.Stubs {
		f := findFunc(prog, v)
		if f == nil {
			jr.Error = "stub target not found: " + v
			return jr
		}
		stubs[k] = f
	}
	if job.Steps == 0 {
		job.Steps = 400000
	}
	if job.TimeoutS == 0 {
		job.TimeoutS = 600
	}
	if job.MaxTicks == 0 {
		job.MaxTicks = 2
	}
	atomic.StoreInt32(&crossBudget, int32(spec.CrossSample))
	t1 := time.Now()
	deadline := t1.Add(time.Duration(job.TimeoutS) * time.Second)

	var mu sync.Mutex
	work := [][]int{{}}
	if job.Prefix != nil {
		work = [][]int{job.Prefix}
	}
	inflight := 0
	cond := sync.NewCond(&mu)
	findings := map[string]*Finding{}
	fnSeen := map[string]bool{}
	intrSeen := map[string]bool{}
	stubSeen := map[string]bool{}
	var cross []crossQuery
	var soltime time.Duration
	var wg sync.WaitGroup
	workers := spec.Workers
	if job.Prefix != nil {
		workers = 1
	}
	stopProg := make(chan struct{})
	go func() {
		tk := time.NewTicker(15 * time.Second)
		defer tk.Stop()
		for {
			select {
			case <-stopProg:
				return
			case <-tk.C:
				mu.Lock()
				fmt.Fprintf(os.Stderr, "  .. %s: paths=%d work=%d kinds=%v elapsed=%.0fs\n", job.Name, jr.Paths, len(work), jr.Kinds, time.Since(t1).Seconds())
				mu.Unlock()
			}
		}
	}()
	for w := 0; w < workers; w++ {
		wg.Add(1)
		go func(wid int) {
			defer wg.Done()
			tt := NewTT()
			sol := NewSolver(spec.Solver)
			defer sol.Close()
			models := []Model{}
			for {
				mu.Lock()
				for len(work) == 0 && inflight > 0 {
					cond.Wait()
				}
				if time.Now().After(deadline) && len(work) > 0 {
					jr.TimedOut = true
				}
				if len(work) == 0 || jr.TimedOut || jr.StoppedEarly || (job.MaxPaths > 0 && jr.Paths >= job.MaxPaths) {
					if len(work) > 0 && job.MaxPaths > 0 && jr.Paths >= job.MaxPaths {
						jr.TimedOut = true
					}
					mu.Unlock()
					cond.Broadcast()
					break
				}
				prefix := work[len(work)-1]
				work = work[:len(work)-1]
				inflight++
				mu.Unlock()

				ex := newExec(prog, tt, sol, &models, job, stubs, prefix)
				ex.replayOnly = job.Prefix != nil
				kind, msg, key, stack := ex.runPath(entryFn)

				var f *Finding
				isFinding := kind == "assertfail" || kind == "panic" || kind == "deadlock" || kind == "unwind" || kind == "race"
				mu.Lock()
				nOK := jr.Kinds["ok"]
				mu.Unlock()
				wantSample := kind == "ok" && nOK < job.SamplePass
				if isFinding || wantSample || (job.Prefix != nil) {
					f = ex.finish(kind, msg, key, stack)
				}
				mu.Lock()
				jr.Paths++
				jr.Steps += ex.steps
				jr.Decisions += ex.pos
				jr.Kinds[kind]++
				switch kind {
				case "unsupported", "engine", "unknown", "bound", "infeasible":
					jr.Inconclusive++
					k := kind + ": " + msg
					if _, ok := findings[k]; !ok {
						findings[k] = &Finding{Kind: kind, Msg: msg, Key: k, Stack: stack, Prefix: append([]int{}, ex.prefix[:ex.pos]...)}
					}
					findings[k].Count++
				}
				if isFinding && f != nil {
					if old, ok := findings[key]; ok {
						old.Count++
						if old.Count >= 3000 && job.Prefix == nil {
							jr.StoppedEarly = true
						}
					} else {
						f.Count = 1
						findings[key] = f
					}
				} else if f != nil && (wantSample || job.Prefix != nil) {
					jr.Samples = append(jr.Samples, f)
				}
				for k := range ex.fnSeen {
					fnSeen[k.String()] = true
				}
				for k := range ex.intrSeen {
					intrSeen[k] = true
				}
				for k := range ex.stubSeen {
					stubSeen[k] = true
				}
				for k, v := range ex.reach {
					jr.Reach[k] += v
				}
				for k, v := range ex.asserts {
					a := jr.Asserts[k]
					if a == nil {
						a = &AssertStat{}
						jr.Asserts[k] = a
					}
					a.Pass += v.Pass
					a.Fail += v.Fail
				}
				for k, v := range ex.assumes {
					a := jr.Assumes[k]
					if a == nil {
						a = &AssertStat{}
						jr.Assumes[k] = a
					}
					a.Pass += v.Pass
					a.Fail += v.Fail
				}
				jr.UnsatClosed += ex.unsatClosed
				if len(cross) < spec.CrossSample {
					for _, q := range ex.crossQ {
						if len(cross) < spec.CrossSample {
							cross = append(cross, q)
						}
					}
				}
				if job.Prefix == nil {
					work = append(work, ex.newWork...)
				}
				inflight--
				jr.Queries += ex.nSolver
				jr.CacheHits += ex.nCache
				mu.Unlock()
				cond.Broadcast()
			}
			mu.Lock()
			soltime += sol.Dur
			mu.Unlock()
		}(w)
	}
	wg.Wait()
	close(stopProg)
	jr.SolverS = soltime.Seconds()
	for _, f := range findings {
		jr.Findings = append(jr.Findings, f)
	}
	sort.Slice(jr.Findings, func(i, j int) bool { return jr.Findings[i].Key < jr.Findings[j].Key })
	for k := range fnSeen {
		jr.Functions = append(jr.Functions, k)
	}
	sort.Strings(jr.Functions)
	for k := range intrSeen {
		jr.Intrinsics = append(jr.Intrinsics, k)
	}
	sort.Strings(jr.Intrinsics)
	for k := range stubSeen {
		jr.Stubs = append(jr.Stubs, k)
	}
	sort.Strings(jr.Stubs)
	// cross-solver re-decision of a sample of the queries that closed an assertion or a panic check
	if len(spec.Cross) > 0 && len(cross) > 0 {
		jr.CrossChecked, jr.CrossBad = crossCheck(spec.Cross, cross)
	}
	jr.WallS = time.Since(t1).Seconds()
	return jr
}
