package main

import (
	"fmt"
	"os"
	"runtime/debug"
	"go/constant"
	"go/token"
	"go/types"
	"strings"
	"sync"

	"golang.org/x/tools/go/ssa"
)

type pathEnd struct{ kind, msg, key string }

var debugFn = os.Getenv("GOSYM_DEBUG")
var stepProfile map[string]int

type deferred struct {
	fn   FuncV
	args []Value
}

type fnInfo struct {
	slot map[ssa.Value]int
	n    int
}

var fnInfos sync.Map // *ssa.Function -> *fnInfo

type unsetT struct{}

var unsetVal Value = &unsetT{}

func infoOf(fn *ssa.Function) *fnInfo {
	if v, ok := fnInfos.Load(fn); ok {
		return v.(*fnInfo)
	}
	fi := &fnInfo{slot: map[ssa.Value]int{}}
	add := func(v ssa.Value) {
		if _, ok := fi.slot[v]; !ok {
			fi.slot[v] = fi.n
			fi.n++
		}
	}
	for _, p := range fn.Params {
		add(p)
	}
	for _, fv := range fn.FreeVars {
		add(fv)
	}
	for _, b := range fn.Blocks {
		for _, in := range b.Instrs {
			if v, ok := in.(ssa.Value); ok {
				add(v)
			}
		}
	}
	v, _ := fnInfos.LoadOrStore(fn, fi)
	return v.(*fnInfo)
}

func (fr *Frame) set(v ssa.Value, x Value) {
	i, ok := fr.info.slot[v]
	if !ok {
		panic(fmt.Sprintf("no slot for %s in %s", v.Name(), fr.fn))
	}
	fr.env[i] = x
}

func (fr *Frame) lookup(v ssa.Value) (Value, bool) {
	i, ok := fr.info.slot[v]
	if !ok || fr.env[i] == unsetVal {
		return nil, false
	}
	return fr.env[i], true
}

func newFrame(fn *ssa.Function, retTo ssa.Value, onRet func(Value)) *Frame {
	fi := infoOf(fn)
	env := make([]Value, fi.n)
	for i := range env {
		env[i] = unsetVal
	}
	return &Frame{fn: fn, env: env, info: fi, block: fn.Blocks[0], retTo: retTo, onRet: onRet}
}

type Frame struct {
	fn     *ssa.Function
	info   *fnInfo
	env    []Value
	block  *ssa.BasicBlock
	prev   *ssa.BasicBlock
	pc     int
	defers []deferred
	retTo  ssa.Value
	onRet  func(Value) // optional callback with the result (intrinsics calling back into Go code)
}

type GState int

const (
	GRun GState = iota
	GBlocked
	GDone
)

type Goroutine struct {
	vc    vclock
	id    int
	stack []*Frame
	state GState
	ready func() bool
	why   string
}

type vecRec struct {
	kind  string // bytes | int | choose
	t     *Term
	bytes []*Term
	ln    *Term
	extra int
	val   int
}

type obsRec struct {
	tag   string
	t     *Term
	bytes []*Term
	ln    *Term
	s     string
}

type Exec struct {
	prog *ssa.Program
	tt   *TermTable
	sol  *Solver
	job  *JobSpec

	prefix  []int
	pos     int
	pc      []*Term
	pcset   map[int]bool
	newWork [][]int
	vars    []*Term
	nvar    int
	steps   int
	nobj    int
	models  *[]Model

	globals  map[*ssa.Global]*Object
	initDone map[*ssa.Package]bool
	gs       []*Goroutine
	cur      *Goroutine
	preempts int
	maxSteps int

	waits      map[*Goroutine]*waitInfo
	mutexes    map[string]*mutexState
	onces      map[string]*onceState
	wgs        map[string]*wgState
	pools      map[string][]Value
	frozenTime bool
	now        int64
	ndl        int64
	passedDl   map[int64]bool
	ctxs       []*ctxObj
	initPkgs   map[string]bool
	stubs      map[string]*ssa.Function // qualified name -> harness function
	trace      []string
	nSolver    int
	nCache     int

	replayOnly  bool
	vec         []vecRec
	obs         []obsRec
	fnSeen      map[*ssa.Function]bool
	intrSeen    map[string]bool
	stubSeen    map[string]bool
	reach       map[string]int
	asserts     map[string]*AssertStat
	assumes     map[string]*AssertStat
	unsatClosed int
	crossQ      []crossQuery
	sched       int
	internalND  int
	raceOn      bool
	syncVC      map[interface{}]vclock
	shadow      map[locKey]*shadowLoc
	lastRun     *Goroutine
	closing     bool // the current branch() decides an assertion / panic check
	known       map[int]*Term // sub-term -> constant, implied by the path condition
	substMemo   map[int]*Term
	pushedFrame bool // an intrinsic pushed a frame that must run before the caller continues
	protoSizes  map[string]*Term
	timerDurs   []*Term
	pendingRace *pathEnd
}

func newExec(prog *ssa.Program, tt *TermTable, sol *Solver, models *[]Model, job *JobSpec,
	stubs map[string]*ssa.Function, prefix []int) *Exec {
	ex := &Exec{prog: prog, tt: tt, sol: sol, job: job, prefix: prefix, pcset: map[int]bool{},
		globals: map[*ssa.Global]*Object{}, initDone: map[*ssa.Package]bool{}, models: models,
		preempts: job.Preempts, maxSteps: job.Steps, stubs: stubs, initPkgs: map[string]bool{},
		waits: map[*Goroutine]*waitInfo{}, fnSeen: map[*ssa.Function]bool{}, intrSeen: map[string]bool{},
		stubSeen: map[string]bool{}, reach: map[string]int{}, asserts: map[string]*AssertStat{},
		assumes: map[string]*AssertStat{}, onces: map[string]*onceState{}, wgs: map[string]*wgState{},
		pools: map[string][]Value{}, now: 1000000}
	for _, p := range initAllow {
		ex.initPkgs[p] = true
	}
	ex.raceOn = job.Params["RACE"] == 1
	return ex
}

// runPath executes one path (decision prefix, then fresh decisions) and classifies its end.
func (e *Exec) runPath(entry *ssa.Function) (kind, msg, key string, stack []string) {
	kind = "ok"
	defer func() {
		if r := recover(); r != nil {
			pe, ok := r.(pathEnd)
			if !ok {
				kind, msg = "engine", fmt.Sprintf("internal error: %v", r)
				key = kind + ": " + msg
				stack = e.stackOf()
				stack = append(stack, strings.Split(string(debugStack()), "\n")...)
				return
			}
			kind, msg, key = pe.kind, pe.msg, pe.key
			if key == "" {
				key = kind + ": " + msg
				if kind == "panic" && e.cur != nil && len(e.cur.stack) > 0 {
					key += " @" + e.cur.stack[len(e.cur.stack)-1].fn.String()
				}
			}
			stack = e.stackOf()
		}
	}()
	e.run(entry)
	if e.pendingRace != nil {
		kind, msg, key = e.pendingRace.kind, e.pendingRace.msg, e.pendingRace.key
	}
	return
}

func (e *Exec) stackOf() []string {
	var st []string
	for _, g := range e.gs {
		for i := len(g.stack) - 1; i >= 0; i-- {
			f := g.stack[i]
			pos := ""
			if f.block != nil && f.pc < len(f.block.Instrs) {
				pos = e.pos2(f.block.Instrs[f.pc])
			}
			st = append(st, fmt.Sprintf("g%d %s %s", g.id, f.fn.String(), pos))
		}
	}
	if len(st) > 40 {
		st = st[:40]
	}
	return st
}

// finish solves the final path condition and evaluates the nondeterminism vector and the
// observations under the model.
func (e *Exec) finish(kind, msg, key string, stack []string) *Finding {
	f := &Finding{Kind: kind, Msg: msg, Key: key, Stack: stack, Prefix: append([]int{}, e.prefix[:e.pos]...),
		Sched: e.sched, Internal: e.internalND}
	if e.job.Trace {
		f.Trace = e.trace
	}
	r, m := e.sol.Check(e.pc, e.vars)
	if r != "sat" {
		f.Msg += " [no model: " + r + "]"
		return f
	}
	f.Model = map[string]uint64{}
	for k, v := range m {
		f.Model[k] = v
	}
	memo := map[int]uint64{}
	for _, v := range e.vec {
		switch v.kind {
		case "int":
			f.Vector = append(f.Vector, VecEntry{K: "int", V: v.t.Eval(m, memo)})
		case "choose":
			f.Vector = append(f.Vector, VecEntry{K: "choose", V: uint64(v.val)})
		case "bytes":
			n := int(v.ln.Eval(m, memo))
			bs := make([]byte, n)
			for i := 0; i < n && i < len(v.bytes); i++ {
				bs[i] = byte(v.bytes[i].Eval(m, memo))
			}
			f.Vector = append(f.Vector, VecEntry{K: "bytes", B: fmt.Sprintf("%x", bs), C: v.extra})
		}
	}
	for _, o := range e.obs {
		switch {
		case o.t != nil:
			f.Observes = append(f.Observes, ObsEntry{o.tag, fmt.Sprintf("%d", int64(sext(o.t.Eval(m, memo), max(o.t.w, 1))))})
		case o.ln != nil:
			n := int(o.ln.Eval(m, memo))
			bs := make([]byte, n)
			for i := 0; i < n && i < len(o.bytes); i++ {
				bs[i] = byte(o.bytes[i].Eval(m, memo))
			}
			f.Observes = append(f.Observes, ObsEntry{o.tag, fmt.Sprintf("%x", bs)})
		default:
			f.Observes = append(f.Observes, ObsEntry{o.tag, o.s})
		}
	}
	return f
}

func (e *Exec) freshVar(w int, tag string) *Term {
	v := e.tt.Var(w, fmt.Sprintf("%s_%d", tag, e.nvar))
	e.nvar++
	e.vars = append(e.vars, v)
	return v
}

func (e *Exec) assume(c *Term) {
	if c.IsTrue() {
		return
	}
	e.pc = append(e.pc, c)
	e.pcset[c.id] = true
	e.learn(c)
}

// learn records equalities with constants implied by an assumed condition, so that later
// terms mentioning the same sub-terms fold to constants without a solver call.
func (e *Exec) learn(c *Term) {
	switch c.op {
	case OEq:
		a, b := c.args[0], c.args[1]
		if a.IsConst() && !b.IsConst() {
			e.setKnown(b, a)
		} else if b.IsConst() && !a.IsConst() {
			e.setKnown(a, b)
		}
	case OAnd:
		e.learn(c.args[0])
		e.learn(c.args[1])
	case ONot:
		if x := c.args[0]; x.op == OOr {
			e.learn(e.tt.Not(x.args[0]))
			e.learn(e.tt.Not(x.args[1]))
		}
		e.setKnown(c.args[0], e.tt.Bool(false))
		return
	}
	if c.w == 0 && !c.IsConst() {
		e.setKnown(c, e.tt.Bool(true))
	}
}

func (e *Exec) setKnown(t, k *Term) {
	if e.known == nil {
		e.known = map[int]*Term{}
	}
	if _, ok := e.known[t.id]; ok {
		return
	}
	e.known[t.id] = k
	e.substMemo = nil
}

// subst rewrites t under the learned equalities.
func (e *Exec) subst(t *Term) *Term {
	if len(e.known) == 0 || t.IsConst() {
		return t
	}
	if e.substMemo == nil {
		e.substMemo = map[int]*Term{}
	}
	return e.subst1(t)
}

func (e *Exec) subst1(t *Term) *Term {
	if k, ok := e.known[t.id]; ok {
		return k
	}
	if len(t.args) == 0 {
		return t
	}
	if r, ok := e.substMemo[t.id]; ok {
		return r
	}
	changed := false
	var na [3]*Term
	for i, a := range t.args {
		na[i] = e.subst1(a)
		if na[i] != a {
			changed = true
		}
	}
	r := t
	if changed {
		tt := e.tt
		switch t.op {
		case ONot:
			r = tt.Not(na[0])
		case OAnd:
			r = tt.And(na[0], na[1])
		case OOr:
			r = tt.Or(na[0], na[1])
		case OEq:
			r = tt.Eq(na[0], na[1])
		case OUlt, OUle, OSlt, OSle:
			r = tt.Cmp(t.op, na[0], na[1])
		case OZExt:
			r = tt.ZExt(na[0], t.w)
		case OSExt:
			r = tt.SExt(na[0], t.w)
		case OExtract:
			r = tt.Trunc(na[0], t.w)
		case OIte:
			r = tt.Ite(na[0], na[1], na[2])
		default:
			r = tt.Bin(t.op, na[0], na[1])
		}
	}
	e.substMemo[t.id] = r
	return r
}

func (e *Exec) record(ch int) {
	e.prefix = append(e.prefix[:e.pos:e.pos], ch)
	e.pos++
}

// sat decides pc ∧ c using the model cache first.
func (e *Exec) sat(c *Term) string {
	if e.models != nil {
		for i := len(*e.models) - 1; i >= 0 && i >= len(*e.models)-8; i-- {
			m := (*e.models)[i]
			memo := map[int]uint64{}
			ok := c.Eval(m, memo) == 1
			for _, t := range e.pc {
				if !ok {
					break
				}
				ok = t.Eval(m, memo) == 1
			}
			if ok {
				e.nCache++
				return "sat"
			}
		}
	}
	e.nSolver++
	r, m := e.sol.Check(append(append([]*Term{}, e.pc...), c), e.vars)
	if r == "sat" && e.models != nil && m != nil {
		*e.models = append(*e.models, m)
		if len(*e.models) > 64 {
			*e.models = (*e.models)[32:]
		}
	}
	return r
}

func (e *Exec) branch(c *Term) bool {
	c = e.subst(c)
	if c.IsTrue() {
		return true
	}
	if c.IsFalse() {
		return false
	}
	if e.pcset[c.id] {
		return true
	}
	nc := e.tt.Not(c)
	if e.pcset[nc.id] {
		return false
	}
	if e.pos < len(e.prefix) {
		ch := e.prefix[e.pos]
		e.pos++
		if ch == 1 {
			e.assume(c)
			return true
		}
		e.assume(nc)
		return false
	}
	r1 := e.sat(c)
	var r2 string
	if r1 == "unsat" {
		r2 = "sat"
	} else {
		r2 = e.sat(nc)
	}
	if (r1 != "sat" && r1 != "unsat") || (r2 != "sat" && r2 != "unsat") {
		panic(pathEnd{kind: "unknown", msg: "solver: " + r1 + "/" + r2})
	}
	if e.closing && r2 == "unsat" {
		e.unsatClosed++
		if crossWanted() {
			conj := append(append([]*Term{}, e.pc...), nc)
			e.crossQ = append(e.crossQ, crossQuery{script: script(conj), want: "unsat"})
		}
	}
	switch {
	case r1 == "sat" && r2 == "sat":
		alt := append(append([]int{}, e.prefix[:e.pos]...), 0)
		e.newWork = append(e.newWork, alt)
		e.record(1)
		e.assume(c)
		return true
	case r1 == "sat":
		e.record(1)
		e.assume(c)
		return true
	case r2 == "sat":
		e.record(0)
		e.assume(nc)
		return false
	}
	panic(pathEnd{kind: "infeasible", msg: "pc unsat"})
}

// choose picks one of n alternatives (all considered feasible).
func (e *Exec) choose(n int) int {
	if n <= 1 {
		return 0
	}
	e.internalND++
	if e.pos < len(e.prefix) {
		ch := e.prefix[e.pos]
		e.pos++
		return ch
	}
	for i := n - 1; i >= 1; i-- {
		alt := append(append([]int{}, e.prefix[:e.pos]...), i)
		e.newWork = append(e.newWork, alt)
	}
	e.record(0)
	return 0
}

// concretize forks over the feasible values of t (bounded).
func (e *Exec) concretize(t *Term, what string) uint64 {
	for n := 0; ; n++ {
		t = e.subst(t)
		if t.IsConst() {
			return t.val
		}
		if n > 256 { // a byte-wide index may be enumerated completely
			panic(mkEnd("bound", "too many values for " + what))
		}
		var cand uint64
		if e.pos < len(e.prefix) {
			cand = uint64(e.prefix[e.pos])
			e.pos++
		} else {
			e.nSolver++
			r, m := e.sol.Check(e.pc, e.vars)
			if r != "sat" {
				panic(mkEnd("infeasible", "concretize " + what))
			}
			cand = t.Eval(m, map[int]uint64{})
			e.record(int(cand))
		}
		if e.branch(e.tt.Eq(t, e.tt.Const(t.w, cand))) {
			return cand
		}
	}
}

func width(t types.Type) int {
	b, ok := t.Underlying().(*types.Basic)
	if !ok {
		return 64
	}
	switch b.Kind() {
	case types.Int8, types.Uint8:
		return 8
	case types.Int16, types.Uint16:
		return 16
	case types.Int32, types.Uint32:
		return 32
	}
	return 64
}

func isSignedT(t types.Type) bool {
	b, ok := t.Underlying().(*types.Basic)
	if !ok {
		return false
	}
	return b.Info()&types.IsInteger != 0 && b.Info()&types.IsUnsigned == 0
}

func isIntT(t types.Type) bool {
	b, ok := t.Underlying().(*types.Basic)
	return ok && b.Info()&types.IsInteger != 0
}

func (e *Exec) constVal(c *ssa.Const) Value {
	if c.Value == nil {
		return e.zero(c.Type())
	}
	t := c.Type().Underlying()
	if b, ok := t.(*types.Basic); ok {
		switch {
		case b.Info()&types.IsBoolean != 0:
			return e.tt.Bool(constant.BoolVal(c.Value))
		case b.Info()&types.IsInteger != 0:
			w := width(b)
			if b.Info()&types.IsUnsigned != 0 {
				u, _ := constant.Uint64Val(constant.ToInt(c.Value))
				return e.tt.Const(w, u)
			}
			i, _ := constant.Int64Val(constant.ToInt(c.Value))
			return e.tt.Const(w, uint64(i))
		case b.Info()&types.IsString != 0:
			return StrV{s: constant.StringVal(c.Value)}
		case b.Info()&types.IsFloat != 0:
			return OpaqueV{"float"}
		}
	}
	panic(fmt.Sprintf("const %s of type %s", c, c.Type()))
}

func (e *Exec) get(fr *Frame, v ssa.Value) Value {
	switch v := v.(type) {
	case *ssa.Const:
		return e.constVal(v)
	case *ssa.Function:
		return FuncV{fn: v}
	case *ssa.Global:
		return Ptr{obj: e.global(v)}
	case *ssa.Builtin:
		return v
	}
	r, ok := fr.lookup(v)
	if !ok {
		panic(fmt.Sprintf("unbound %s (%T) in %s", v.Name(), v, fr.fn))
	}
	return r
}

func (e *Exec) global(g *ssa.Global) *Object {
	if o, ok := e.globals[g]; ok {
		return o
	}
	o := e.newObj(g.Type().(*types.Pointer).Elem(), nil, "global "+g.String())
	o.v = e.zero(o.typ)
	e.globals[g] = o
	if v, ok := e.sentinel(g); ok {
		o.v = v
		return o
	}
	if p := g.Pkg; p != nil && !e.initPkgs[p.Pkg.Path()] {
		// A package whose initialiser is not executed (pb: 77 k instructions of descriptor
		// tables): a package-level map built from a literal with constant keys and values
		// (the generated enum name / value tables) is still given its contents.
		if _, isMap := o.typ.Underlying().(*types.Map); isMap {
			if f := p.Func("init"); f != nil {
				for _, b := range f.Blocks {
					for _, in := range b.Instrs {
						st, ok := in.(*ssa.Store)
						if !ok || st.Addr != ssa.Value(g) {
							continue
						}
						mk, ok := st.Val.(*ssa.MakeMap)
						if !ok {
							continue
						}
						e.nobj++
						m := &MapObj{id: e.nobj}
						for _, r := range *mk.Referrers() {
							if up, ok := r.(*ssa.MapUpdate); ok {
								k, kok := up.Key.(*ssa.Const)
								v, vok := up.Value.(*ssa.Const)
								if kok && vok {
									e.mapSet(m, e.constVal(k), e.constVal(v))
								}
							}
						}
						o.v = MapV{m: m}
					}
				}
			}
		}
	}
	if p := g.Pkg; p != nil && e.initPkgs[p.Pkg.Path()] && !e.initDone[p] && e.cur != nil {
		e.initDone[p] = true
		if f := p.Func("init"); f != nil && f.Blocks != nil {
			// package initialisation happens before everything else: its accesses are not
			// part of the race analysis
			on := e.raceOn
			e.raceOn = false
			e.callSync(e.cur, FuncV{fn: f}, nil, func(Value) {})
			e.raceOn = on
		}
	}
	return o
}

func (e *Exec) pos2(in ssa.Instruction) string {
	p := e.prog.Fset.Position(in.Pos())
	if !p.IsValid() {
		return in.Parent().String()
	}
	f := p.Filename
	if i := strings.LastIndex(f, "/"); i >= 0 {
		f = f[i+1:]
	}
	return fmt.Sprintf("%s:%d (%s)", f, p.Line, in.Parent().Name())
}

func (e *Exec) check(ok *Term, in ssa.Instruction, what string) {
	e.closing = true
	r := e.branch(ok)
	e.closing = false
	if !r {
		panic(e.panicEnd(in, what))
	}
}

// panicEnd builds the path end for a Go run-time panic at instruction in.
func (e *Exec) panicEnd(in ssa.Instruction, what string) pathEnd {
	fn := "?"
	if in != nil && in.Parent() != nil {
		fn = in.Parent().String()
	}
	where := fn
	if in != nil {
		where = e.pos2(in)
	}
	return pathEnd{kind: "panic", msg: what + " at " + where, key: "panic: " + what + " @" + fn}
}

func (e *Exec) toI64(v Value, typ types.Type) *Term {
	t := v.(*Term)
	if t.w == 64 {
		return t
	}
	if isSignedT(typ) {
		return e.tt.SExt(t, 64)
	}
	return e.tt.ZExt(t, 64)
}

func (e *Exec) newGoroutine(fn FuncV, args []Value) *Goroutine {
	g := &Goroutine{id: len(e.gs)}
	e.gs = append(e.gs, g)
	e.raceInit(g, e.cur)
	e.pushCall(g, fn, args, nil, nil)
	if len(g.stack) == 0 {
		g.state = GDone // a native function: it has already run
	}
	return g
}

// pushCall arranges for fn(args) to run on g; result bound to retTo in the caller frame.
func (e *Exec) pushCall(g *Goroutine, f FuncV, args []Value, retTo ssa.Value, onRet func(Value)) {
	if f.native != nil {
		e.deliver(g, retTo, onRet, f.native(e, g, args))
		return
	}
	if f.fn == nil {
		panic(mkEnd("panic", "call of nil func"))
	}
	all := append(append([]Value{}, f.recv...), args...)
	fn := f.fn
	if h, ok := e.stubs[fn.String()]; ok {
		e.stubSeen[fn.String()+" => "+h.Name()] = true
		fn = h
	}
	if fn.Blocks == nil || isIntrinsicName(fn) {
		res, blocked := e.intrinsic(g, fn, all)
		if blocked {
			panic("blocking intrinsic via pushCall")
		}
		e.deliver(g, retTo, onRet, res)
		return
	}
	e.fnSeen[fn] = true
	if e.job.Trace && fn.Pkg != nil && strings.HasPrefix(fn.Pkg.Pkg.Path(), "github.com/tsuna/gohbase") {
		e.trace = append(e.trace, fmt.Sprintf("g%d %s%s", g.id, strings.Repeat(" ", len(g.stack)), fn.String()))
	}
	fr := newFrame(fn, retTo, onRet)
	if len(all) != len(fn.Params) {
		panic(fmt.Sprintf("arity %s: %d vs %d", fn, len(all), len(fn.Params)))
	}
	for i, p := range fn.Params {
		fr.set(p, all[i])
	}
	for i, fv := range fn.FreeVars {
		fr.set(fv, f.free[i])
	}
	g.stack = append(g.stack, fr)
}

func (e *Exec) deliver(g *Goroutine, retTo ssa.Value, onRet func(Value), res Value) {
	if onRet != nil {
		onRet(res)
	}
	if retTo != nil && len(g.stack) > 0 {
		g.stack[len(g.stack)-1].set(retTo, res)
	}
}

func (e *Exec) run(entry *ssa.Function) {
	main := e.newGoroutine(FuncV{fn: entry}, nil)
	e.cur = main
	for {
		if e.cur == nil || e.cur.state != GRun {
			e.cur = e.pickNext(nil)
			if e.cur == nil {
				if main.state == GDone {
					return
				}
				panic(mkEnd("deadlock", e.describeBlocked()))
			}
		}
		if e.gs[0].state == GDone {
			return // harness returned
		}
		e.step(e.cur)
	}
}

func (e *Exec) describeBlocked() string {
	var sb strings.Builder
	for _, g := range e.gs {
		if g.state == GBlocked {
			fmt.Fprintf(&sb, "g%d:%s ", g.id, g.why)
		}
	}
	return sb.String()
}

func (e *Exec) runnable() []*Goroutine {
	var rs []*Goroutine
	for _, g := range e.gs {
		if g.state == GRun || (g.state == GBlocked && g.ready != nil && g.ready()) {
			rs = append(rs, g)
		}
	}
	return rs
}

func (e *Exec) pickNext(except *Goroutine) *Goroutine {
	rs := e.runnable()
	var cands []*Goroutine
	for _, g := range rs {
		if g != except {
			cands = append(cands, g)
		}
	}
	if len(cands) == 0 {
		return nil
	}
	// Delay-bounded scheduling: the default successor is the runnable goroutine that follows
	// the last one in round-robin order; picking any other one costs one unit of the same budget
	// that pre-emptions draw from. With the budget exhausted the schedule is deterministic.
	start := 0
	if e.lastRun != nil {
		for i, c := range cands {
			if c.id > e.lastRun.id {
				start = i
				break
			}
		}
	}
	k := 0
	if len(cands) > 1 && e.preempts > 0 {
		k = e.choose(len(cands))
		if k != 0 {
			e.preempts--
			e.sched++
		}
	}
	g := cands[(start+k)%len(cands)]
	g.state = GRun
	g.ready = nil
	e.lastRun = g
	return g
}

// syncPoint is called before a synchronisation operation of g; it may pre-empt.
func (e *Exec) syncPoint(g *Goroutine) bool {
	if len(e.gs) == 1 || e.preempts <= 0 {
		return false
	}
	var others []*Goroutine
	for _, o := range e.runnable() {
		if o != g {
			others = append(others, o)
		}
	}
	if len(others) == 0 {
		return false
	}
	ch := e.choose(1 + len(others))
	if ch == 0 {
		return false
	}
	e.preempts--
	e.sched++
	o := others[ch-1]
	o.state = GRun
	o.ready = nil
	e.cur = o
	e.lastRun = o
	return true
}

func (e *Exec) block(g *Goroutine, why string, ready func() bool) {
	g.state = GBlocked
	g.why = why
	g.ready = ready
	e.cur = nil
}

func (e *Exec) step(g *Goroutine) {
	e.steps++
	if e.steps > e.maxSteps {
		panic(mkEnd("unwind", "step budget exceeded"))
	}
	fr := g.stack[len(g.stack)-1]
	in := fr.block.Instrs[fr.pc]
	if stepProfile != nil {
		stepProfile[fr.fn.String()]++
	}
	tt := e.tt
	advance := true
	if debugFn != "" && strings.Contains(fr.fn.String(), debugFn) {
		defer func() {
			if v, ok := in.(ssa.Value); ok {
				fmt.Printf("  [%s] %s = %s   => %+v\n", fr.fn.Name(), v.Name(), in, func() Value { x, _ := fr.lookup(v); return x }())
			} else {
				fmt.Printf("  [%s] %s\n", fr.fn.Name(), in)
			}
		}()
	}
	switch in := in.(type) {
	case *ssa.DebugRef:
	case *ssa.Phi:
		for i, p := range fr.block.Preds {
			if p == fr.prev {
				fr.set(in, e.get(fr, in.Edges[i]))
				break
			}
		}
	case *ssa.Alloc:
		t := in.Type().(*types.Pointer).Elem()
		o := e.newObj(t, nil, in.Comment)
		o.v = e.zero(t)
		fr.set(in, Ptr{obj: o})
	case *ssa.Store:
		e.store(e.get(fr, in.Addr).(Ptr), e.get(fr, in.Val))
	case *ssa.UnOp:
		x := e.get(fr, in.X)
		switch in.Op {
		case token.MUL:
			p := x.(Ptr)
			if p.obj == nil {
				panic(e.panicEnd(in, "nil pointer dereference"))
			}
			fr.set(in, e.load(p))
		case token.NOT:
			fr.set(in, tt.Not(x.(*Term)))
		case token.SUB:
			t := x.(*Term)
			fr.set(in, tt.Bin(OSub, tt.Const(t.w, 0), t))
		case token.XOR:
			t := x.(*Term)
			fr.set(in, tt.Bin(OBXor, t, tt.Const(t.w, ^uint64(0))))
		case token.ARROW:
			v, ok, blocked := e.chanRecv(g, x.(ChanV), in)
			if blocked {
				return
			}
			if in.CommaOk {
				fr.set(in, TupleV{v, tt.Bool(ok)})
			} else {
				fr.set(in, v)
			}
		default:
			panic("unop " + in.Op.String())
		}
	case *ssa.BinOp:
		fr.set(in, e.binop(in, e.get(fr, in.X), e.get(fr, in.Y)))
	case *ssa.Convert:
		fr.set(in, e.convert(e.get(fr, in.X), in.X.Type(), in.Type(), in))
	case *ssa.ChangeType:
		fr.set(in, e.get(fr, in.X))
	case *ssa.ChangeInterface:
		fr.set(in, e.get(fr, in.X))
	case *ssa.MakeInterface:
		fr.set(in, IfaceV{t: in.X.Type(), v: e.get(fr, in.X)})
	case *ssa.TypeAssert:
		fr.set(in, e.typeAssert(in, e.get(fr, in.X).(IfaceV)))
	case *ssa.Extract:
		fr.set(in, e.get(fr, in.Tuple).(TupleV)[in.Index])
	case *ssa.FieldAddr:
		p := e.get(fr, in.X).(Ptr)
		if p.obj == nil {
			panic(e.panicEnd(in, "nil pointer dereference (field)"))
		}
		if p.idx != nil {
			k := e.concretize(p.idx, "index of aggregate element")
			p = Ptr{obj: p.obj, path: append(append([]int{}, p.path...), int(k))}
		}
		fr.set(in, p.field(in.Field))
	case *ssa.Field:
		fr.set(in, copyVal(e.get(fr, in.X).(*StructV).f[in.Field]))
	case *ssa.IndexAddr:
		idx := e.subst(e.toI64(e.get(fr, in.Index), in.Index.Type()))
		switch x := e.get(fr, in.X).(type) {
		case SliceV:
			ln := x.ln
			if ln == nil {
				ln = tt.Const(64, 0)
			}
			e.check(tt.Cmp(OUlt, idx, ln), in, "index out of range")
			fr.set(in, x.arr.elem(e.subst(tt.Bin(OAdd, x.off, idx))))
		case Ptr: // *array
			if x.obj == nil {
				panic(e.panicEnd(in, "nil array pointer"))
			}
			n := in.X.Type().Underlying().(*types.Pointer).Elem().Underlying().(*types.Array).Len()
			e.check(tt.Cmp(OUlt, idx, tt.Const(64, uint64(n))), in, "index out of range")
			fr.set(in, x.elem(idx))
		default:
			panic(fmt.Sprintf("indexaddr on %T", x))
		}
	case *ssa.Index:
		idx := e.toI64(e.get(fr, in.Index), in.Index.Type())
		switch x := e.get(fr, in.X).(type) {
		case *ArrayV:
			e.check(tt.Cmp(OUlt, idx, tt.Const(64, uint64(len(x.e)))), in, "index out of range")
			k := e.concretize(idx, "array value index")
			fr.set(in, copyVal(x.e[k]))
		case StrV:
			fr.set(in, e.strIndex(x, idx, in))
		default:
			panic(fmt.Sprintf("index on %T", x))
		}
	case *ssa.Slice:
		fr.set(in, e.sliceOp(in, fr))
	case *ssa.MakeSlice:
		ln := e.toI64(e.get(fr, in.Len), in.Len.Type())
		cp := e.toI64(e.get(fr, in.Cap), in.Cap.Type())
		fr.set(in, e.makeSlice(in.Type().Underlying().(*types.Slice).Elem(), ln, cp, in))
	case *ssa.MakeMap:
		e.nobj++
		fr.set(in, MapV{m: &MapObj{id: e.nobj}})
	case *ssa.MapUpdate:
		m := e.get(fr, in.Map).(MapV)
		if m.m == nil {
			panic(e.panicEnd(in, "assignment to entry in nil map"))
		}
		e.mapSet(m.m, e.get(fr, in.Key), e.get(fr, in.Value))
	case *ssa.Lookup:
		switch x := e.get(fr, in.X).(type) {
		case MapV:
			v, ok := e.mapGet(x.m, e.get(fr, in.Index))
			if !ok {
				v = e.zero(in.X.Type().Underlying().(*types.Map).Elem())
			}
			if in.CommaOk {
				fr.set(in, TupleV{v, tt.Bool(ok)})
			} else {
				fr.set(in, v)
			}
		case StrV:
			fr.set(in, e.strIndex(x, e.toI64(e.get(fr, in.Index), in.Index.Type()), in))
		}
	case *ssa.Range:
		fr.set(in, e.rangeStart(e.get(fr, in.X)))
	case *ssa.Next:
		fr.set(in, e.rangeNext(e.get(fr, in.Iter).(*rangeIter), in))
	case *ssa.MakeClosure:
		f := FuncV{fn: in.Fn.(*ssa.Function)}
		for _, b := range in.Bindings {
			f.free = append(f.free, e.get(fr, b))
		}
		fr.set(in, f)
	case *ssa.MakeChan:
		n := e.concretize(e.toI64(e.get(fr, in.Size), in.Size.Type()), "chan size")
		e.nobj++
		fr.set(in, ChanV{c: &ChanObj{id: e.nobj, cap: int(n)}})
	case *ssa.Send:
		if e.chanSend(g, e.get(fr, in.Chan).(ChanV), e.get(fr, in.X), in) {
			return
		}
	case *ssa.Select:
		if e.selectOp(g, fr, in) {
			return
		}
	case *ssa.If:
		if e.branch(e.get(fr, in.Cond).(*Term)) {
			e.jump(fr, fr.block.Succs[0])
		} else {
			e.jump(fr, fr.block.Succs[1])
		}
		advance = false
	case *ssa.Jump:
		e.jump(fr, fr.block.Succs[0])
		advance = false
	case *ssa.Return:
		var res Value
		switch len(in.Results) {
		case 0:
		case 1:
			res = e.get(fr, in.Results[0])
		default:
			t := make(TupleV, len(in.Results))
			for i, r := range in.Results {
				t[i] = e.get(fr, r)
			}
			res = t
		}
		g.stack = g.stack[:len(g.stack)-1]
		if len(g.stack) == 0 {
			g.state = GDone
			if fr.onRet != nil {
				fr.onRet(res)
			}
			e.cur = nil
			return
		}
		e.deliver(g, fr.retTo, fr.onRet, res)
		return
	case *ssa.RunDefers:
		if n := len(fr.defers); n > 0 {
			d := fr.defers[n-1]
			fr.defers = fr.defers[:n-1]
			e.pushCall(g, d.fn, d.args, nil, nil)
			return // re-execute RunDefers afterwards
		}
	case *ssa.Panic:
		panic(e.panicEnd(in, "explicit panic"))
	case *ssa.Defer:
		f, args := e.callee(fr, &in.Call)
		fr.defers = append(fr.defers, deferred{f, args})
	case *ssa.Go:
		f, args := e.callee(fr, &in.Call)
		e.newGoroutine(f, args)
	case *ssa.Call:
		if b, ok := in.Call.Value.(*ssa.Builtin); ok {
			var args []Value
			for _, a := range in.Call.Args {
				args = append(args, e.get(fr, a))
			}
			fr.set(in, e.builtin(b, args, in))
			break
		}
		if in.Call.IsInvoke() {
			if iv, ok := e.get(fr, in.Call.Value).(IfaceV); ok {
				if c, ok := iv.v.(*ctxObj); ok {
					fr.set(in, e.ctxMethod(c, in.Call.Method.Name(), in))
					break
				}
			}
		}
		f, args := e.callee(fr, &in.Call)
		if f.native != nil {
			fr.set(in, f.native(e, g, args))
			break
		}
		if f.fn == nil {
			panic(e.panicEnd(in, "call of nil function"))
		}
		fn := f.fn
		if strings.HasPrefix(fn.Name(), "init#") && fn.Pkg != nil && strings.HasSuffix(fn.Pkg.Pkg.Path(), "/pb") {
			break // protobuf registration: outside the model
		}
		if fn.Name() == "init" && fn.Pkg != nil && fn.Signature.Recv() == nil {
			if !e.initPkgs[fn.Pkg.Pkg.Path()] || e.initDone[fn.Pkg] {
				break
			}
			e.initDone[fn.Pkg] = true
		}
		if h, ok := e.stubs[fn.String()]; ok {
			fn = h
			f = FuncV{fn: h, recv: f.recv}
		}
		if fn.Blocks == nil || isIntrinsicName(fn) {
			if isSyncIntrinsic(fn) && e.syncPoint(g) {
				return
			}
			res, blocked := e.intrinsic(g, fn, append(append([]Value{}, f.recv...), args...))
			if blocked {
				return
			}
			fr.set(in, res)
			if isReleaseIntrinsic(fn) {
				// a lock release is also a scheduling point *after* it took effect
				fr.pc++
				e.syncPoint(g)
				return
			}
			break
		}
		fr.pc++
		e.pushCall(g, f, args, in, nil)
		return
	default:
		panic(mkEnd("unsupported", fmt.Sprintf("instr %T: %s at %s", in, in, e.pos2(in))))
	}
	if advance {
		fr.pc++
	}
}

func (e *Exec) jump(fr *Frame, b *ssa.BasicBlock) {
	fr.prev = fr.block
	fr.block = b
	fr.pc = 0
}

func (e *Exec) callee(fr *Frame, c *ssa.CallCommon) (FuncV, []Value) {
	var args []Value
	for _, a := range c.Args {
		args = append(args, e.get(fr, a))
	}
	if c.IsInvoke() {
		iv := e.get(fr, c.Value).(IfaceV)
		if iv.t == nil {
			panic(mkEnd("panic", "method call on nil interface " + c.Method.Name()))
		}
		if _, isOpaque := iv.v.(OpaqueV); isOpaque || iv.t == opaqueErrType {
			sig := c.Method.Type().(*types.Signature)
			return FuncV{native: func(e *Exec, g *Goroutine, args []Value) Value {
				res := sig.Results()
				switch res.Len() {
				case 0:
					return nil
				case 1:
					return e.opaqueOf(res.At(0).Type())
				}
				tv := make(TupleV, res.Len())
				for i := range tv {
					tv[i] = e.opaqueOf(res.At(i).Type())
				}
				return tv
			}}, args
		}
		m := e.prog.LookupMethod(iv.t, c.Method.Pkg(), c.Method.Name())
		if m == nil {
			panic(mkEnd("unsupported", fmt.Sprintf("no method %s on %s", c.Method.Name(), iv.t)))
		}
		return FuncV{fn: m}, append([]Value{iv.v}, args...)
	}
	switch v := e.get(fr, c.Value).(type) {
	case FuncV:
		return v, args
	case *ssa.Builtin:
		return FuncV{native: func(e *Exec, g *Goroutine, a []Value) Value { return e.builtin(v, a, nil) }}, args
	}
	panic(fmt.Sprintf("callee %T", e.get(fr, c.Value)))
}

func (e *Exec) typeAssert(in *ssa.TypeAssert, iv IfaceV) Value {
	ok := false
	if iv.t != nil {
		if it, isI := in.AssertedType.Underlying().(*types.Interface); isI {
			ok = types.Implements(iv.t, it)
		} else {
			ok = types.Identical(iv.t, in.AssertedType)
		}
	}
	var res Value
	if ok {
		if _, isI := in.AssertedType.Underlying().(*types.Interface); isI {
			res = iv
		} else {
			res = iv.v
		}
	} else {
		if !in.CommaOk {
			panic(e.panicEnd(in, "interface conversion failed"))
		}
		res = e.zero(in.AssertedType)
	}
	if in.CommaOk {
		return TupleV{res, e.tt.Bool(ok)}
	}
	return res
}


var sentinelTypes = map[string]types.Type{}

func (e *Exec) sentinel(g *ssa.Global) (Value, bool) {
	switch g.String() {
	case "context.Canceled", "context.DeadlineExceeded":
		return e.sentinelErr(g.String()), true
	}
	return nil, false
}

func (e *Exec) sentinelErr(name string) IfaceV {
	t, ok := sentinelTypes[name]
	if !ok {
		t = types.NewNamed(types.NewTypeName(0, nil, name, nil), types.NewStruct(nil, nil), nil)
		sentinelTypes[name] = t
	}
	return IfaceV{t: t, v: OpaqueV{name}}
}

func (e *Exec) ctxMethod(c *ctxObj, name string, in *ssa.Call) Value {
	switch name {
	case "Done":
		for p := c; p != nil; p = p.parent {
			if p.done != nil {
				// nearest cancellable ancestor decides (cancellation propagates at cancel time)
				return ChanV{c: c.doneChan()}
			}
		}
		return ChanV{}
	case "Err":
		for p := c; p != nil; p = p.parent {
			if p.cancelled {
				if p.done != nil {
					e.acq(e.cur, p.done)
				}
				if p.deadline {
					return e.sentinelErr("context.DeadlineExceeded")
				}
				return e.sentinelErr("context.Canceled")
			}
		}
		return IfaceV{}
	case "Value":
		return IfaceV{}
	case "Deadline":
		tv := e.zero(in.Type().(*types.Tuple).At(0).Type()).(*StructV)
		for p := c; p != nil; p = p.parent {
			if p.timeout {
				tv.f[1] = e.tt.Const(64, uint64(p.dl))
				return TupleV{tv, e.tt.Bool(true)}
			}
		}
		return TupleV{tv, e.tt.Bool(false)}
	}
	panic(mkEnd("unsupported", "context method " + name))
}

func (c *ctxObj) isCancelled() bool {
	for p := c; p != nil; p = p.parent {
		if p.cancelled {
			return true
		}
	}
	return false
}

// doneChan returns the channel of the nearest cancellable context (a child without its own
// channel shares its parent's).
func (c *ctxObj) doneChan() *ChanObj {
	for p := c; p != nil; p = p.parent {
		if p.done != nil {
			return p.done
		}
	}
	return nil
}

func debugStack() []byte { return debug.Stack() }

func mkEnd(kind, msg string) pathEnd { return pathEnd{kind: kind, msg: msg} }
