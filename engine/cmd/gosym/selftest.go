package main

import (
	"fmt"
	"math/rand"
	"os"
)

// selfTest cross-checks the three places where bit-vector semantics live: the constant folder
// (TermTable.Bin/Cmp/…), the model evaluator (Term.Eval) and the SMT solver's own semantics.
// For random operators, widths and operands (biased towards boundary values) the folded
// constant, the evaluation under a model and the solver's value for the same term over
// variables pinned to those operands must coincide.
func selfTest(solver string, n int) int {
	tt := NewTT()
	sol := NewSolver(solver)
	defer func() { sol.Close() }()
	rnd := rand.New(rand.NewSource(1))
	widths := []int{8, 16, 32, 64}
	special := []uint64{0, 1, 2, 7, 8, 31, 32, 63, 64, 65, 0x7f, 0x80, 0xff, 0x7fff, 0x8000, 0xffff, 0x7fffffff, 0x80000000,
		0xffffffff, 0x7fffffffffffffff, 0x8000000000000000, 0xffffffffffffffff, 1000000000}
	pick := func(w int) uint64 {
		if rnd.Intn(2) == 0 {
			return special[rnd.Intn(len(special))] & mask(w)
		}
		return rnd.Uint64() & mask(w)
	}
	binops := []Op{OAdd, OSub, OMul, OBAnd, OBOr, OBXor, OShl, OLShr, OAShr, OUDiv, OURem}
	cmps := []Op{OUlt, OUle, OSlt, OSle}
	bad := 0
	for i := 0; i < n; i++ {
		if i%100 == 99 {
			// a fresh solver now and then: guard literals accumulate in an incremental session
			sol.Close()
			sol = NewSolver(solver)
		}
		w := widths[rnd.Intn(len(widths))]
		x, y := pick(w), pick(w)
		a, b := tt.Var(w, fmt.Sprintf("sa%d_%d", w, i)), tt.Var(w, fmt.Sprintf("sb%d_%d", w, i))
		cx, cy := tt.Const(w, x), tt.Const(w, y)
		var sym, folded *Term
		switch k := rnd.Intn(6); k {
		case 0, 1, 2:
			op := binops[rnd.Intn(len(binops))]
			sym, folded = tt.Bin(op, a, b), tt.Bin(op, cx, cy)
		case 3:
			op := cmps[rnd.Intn(len(cmps))]
			sym, folded = tt.Cmp(op, a, b), tt.Cmp(op, cx, cy)
		case 4:
			sym, folded = tt.Eq(a, b), tt.Eq(cx, cy)
		default:
			w2 := widths[rnd.Intn(len(widths))]
			switch {
			case w2 > w && rnd.Intn(2) == 0:
				sym, folded = tt.SExt(a, w2), tt.SExt(cx, w2)
			case w2 > w:
				sym, folded = tt.ZExt(a, w2), tt.ZExt(cx, w2)
			default:
				sym, folded = tt.Trunc(a, w2), tt.Trunc(cx, w2)
			}
		}
		if !folded.IsConst() {
			fmt.Printf("SELFTEST: constant operands did not fold: %s\n", folded.body())
			bad++
			continue
		}
		want := folded.val
		if folded.w == 0 {
			want = 0
			if folded.IsTrue() {
				want = 1
			}
		}
		m := Model{a.name: x, b.name: y}
		if got := sym.Eval(m, map[int]uint64{}); got != want {
			fmt.Printf("SELFTEST: Eval disagrees with folding: %s x=%#x y=%#x eval=%#x fold=%#x\n", sym.body(), x, y, got, want)
			bad++
		}
		// the solver: pinned operands, result must equal the folded constant
		var res *Term
		if sym.w == 0 {
			res = tt.Eq(sym, tt.Bool(want == 1))
		} else {
			res = tt.Eq(sym, tt.Const(sym.w, want))
		}
		r, _ := sol.Check([]*Term{tt.Eq(a, cx), tt.Eq(b, cy), tt.Not(res)}, nil)
		if r != "unsat" {
			fmt.Printf("SELFTEST: solver disagrees with folding: %s x=%#x y=%#x fold=%#x (%s)\n", sym.body(), x, y, want, r)
			bad++
		}
	}
	fmt.Printf("SELFTEST: %d cases, %d disagreements (%s)\n", n, bad, solver)
	if bad > 0 {
		os.Exit(1)
	}
	return bad
}
