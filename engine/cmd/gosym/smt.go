package main

import (
	"bufio"
	"fmt"
	"io"
	"os/exec"
	"sort"
	"strconv"
	"strings"
	"sync"
	"sync/atomic"
	"time"
)

type Solver struct {
	cmd     *exec.Cmd
	in      io.WriteCloser
	out     *bufio.Reader
	defined map[int]bool
	lits    map[int]bool
	Queries int
	Dur     time.Duration
	log     io.Writer
}

func NewSolver(bin string) *Solver {
	var cmd *exec.Cmd
	switch bin {
	case "cvc5":
		cmd = exec.Command("cvc5", "--incremental", "--lang=smt2", "--produce-models", "--tlimit-per=20000")
	default:
		cmd = exec.Command(bin, "-in")
	}
	in, _ := cmd.StdinPipe()
	outp, _ := cmd.StdoutPipe()
	cmd.Stderr = cmd.Stdout
	if err := cmd.Start(); err != nil {
		panic(err)
	}
	s := &Solver{cmd: cmd, in: in, out: bufio.NewReader(outp), defined: map[int]bool{}, lits: map[int]bool{}}
	if bin == "cvc5" {
		s.send("(set-logic QF_BV)")
	}
	s.send("(set-option :produce-models true)")
	if bin != "cvc5" {
		s.send("(set-option :timeout 20000)")
	}
	return s
}

func (s *Solver) Close() { s.in.Close(); s.cmd.Wait() }

func (s *Solver) send(str string) {
	io.WriteString(s.in, str+"\n")
	if s.log != nil {
		io.WriteString(s.log, str+"\n")
	}
}

func (s *Solver) define(t *Term) {
	if s.defined[t.id] {
		return
	}
	s.defined[t.id] = true
	switch t.op {
	case OConst, OTrue, OFalse:
		return
	case OVar:
		s.send(fmt.Sprintf("(declare-const %s %s)", t.name, t.sort()))
		return
	}
	for _, a := range t.args {
		s.define(a)
	}
	s.send(fmt.Sprintf("(define-fun t%d () %s %s)", t.id, t.sort(), t.body()))
}

func (s *Solver) lit(t *Term) string {
	if !s.lits[t.id] {
		s.define(t)
		s.lits[t.id] = true
		s.send(fmt.Sprintf("(declare-const a%d Bool)(assert (=> a%d %s))", t.id, t.id, t.ref()))
	}
	return fmt.Sprintf("a%d", t.id)
}

// Check decides satisfiability of the conjunction; on sat returns values of vars.
func (s *Solver) Check(conj []*Term, vars []*Term) (string, Model) {
	t0 := time.Now()
	defer func() { s.Dur += time.Since(t0) }()
	s.Queries++
	var sb strings.Builder
	sb.WriteString("(check-sat-assuming (")
	for _, t := range conj {
		if t.IsTrue() {
			continue
		}
		if t.IsFalse() {
			return "unsat", nil
		}
		sb.WriteString(s.lit(t) + " ")
	}
	sb.WriteString("))")
	s.send(sb.String())
	res := s.readLine()
	if res != "sat" || len(vars) == 0 {
		return res, nil
	}
	var vb strings.Builder
	vb.WriteString("(get-value (")
	n := 0
	for _, v := range vars {
		if s.defined[v.id] { // only vars the solver knows
			vb.WriteString(v.name + " ")
			n++
		}
	}
	vb.WriteString("))")
	m := Model{}
	if n == 0 {
		return res, m
	}
	s.send(vb.String())
	depth := 0
	var all strings.Builder
	for {
		l := s.readLine()
		all.WriteString(l + " ")
		depth += strings.Count(l, "(") - strings.Count(l, ")")
		if depth <= 0 {
			break
		}
	}
	txt := all.String()
	for _, v := range vars {
		key := "(" + v.name + " "
		i := strings.Index(txt, key)
		if i < 0 {
			continue
		}
		rest := txt[i+len(key):]
		j := strings.Index(rest, ")")
		val := strings.TrimSpace(rest[:j])
		switch {
		case val == "true":
			m[v.name] = 1
		case val == "false":
			m[v.name] = 0
		case strings.HasPrefix(val, "#x"):
			u, _ := strconv.ParseUint(val[2:], 16, 64)
			m[v.name] = u
		case strings.HasPrefix(val, "#b"):
			u, _ := strconv.ParseUint(val[2:], 2, 64)
			m[v.name] = u
		}
	}
	return res, m
}

func (s *Solver) readLine() string {
	for {
		l, err := s.out.ReadString('\n')
		if err != nil {
			panic("solver died: " + err.Error())
		}
		l = strings.TrimSpace(l)
		if l == "" {
			continue
		}
		if strings.HasPrefix(l, "(error") {
			panic("solver error: " + l)
		}
		return l
	}
}

// ---- stand-alone scripts and cross-solver re-decision ----

var crossBudget int32

func crossWanted() bool {
	return atomic.AddInt32(&crossBudget, -1) >= 0
}

// script renders the conjunction as a self-contained SMT-LIB2 script.
func script(conj []*Term) string {
	seen := map[int]*Term{}
	var visit func(t *Term)
	visit = func(t *Term) {
		if _, ok := seen[t.id]; ok {
			return
		}
		seen[t.id] = t
		for _, a := range t.args {
			visit(a)
		}
	}
	for _, t := range conj {
		visit(t)
	}
	ids := make([]int, 0, len(seen))
	for id := range seen {
		ids = append(ids, id)
	}
	sort.Ints(ids)
	var sb strings.Builder
	sb.WriteString("(set-logic QF_BV)\n")
	for _, id := range ids {
		t := seen[id]
		switch t.op {
		case OConst, OTrue, OFalse:
		case OVar:
			fmt.Fprintf(&sb, "(declare-const %s %s)\n", t.name, t.sort())
		default:
			fmt.Fprintf(&sb, "(define-fun t%d () %s %s)\n", t.id, t.sort(), t.body())
		}
	}
	for _, t := range conj {
		fmt.Fprintf(&sb, "(assert %s)\n", t.ref())
	}
	sb.WriteString("(check-sat)\n")
	return sb.String()
}

// crossCheck re-decides the sampled queries with the other solvers; returns the number of
// (query, solver) pairs checked and a description of each disagreement.
func crossCheck(solvers []string, qs []crossQuery) (int, []string) {
	var mu sync.Mutex
	var bad []string
	n := 0
	sem := make(chan struct{}, 16)
	var wg sync.WaitGroup
	for qi, q := range qs {
		for _, sv := range solvers {
			wg.Add(1)
			sem <- struct{}{}
			go func(qi int, q crossQuery, sv string) {
				defer wg.Done()
				defer func() { <-sem }()
				var cmd *exec.Cmd
				switch sv {
				case "cvc5":
					cmd = exec.Command("cvc5", "--lang=smt2", "--tlimit=60000")
				default:
					cmd = exec.Command(sv, "-in", "-T:60")
				}
				cmd.Stdin = strings.NewReader(q.script)
				out, _ := cmd.CombinedOutput()
				got := strings.TrimSpace(string(out))
				mu.Lock()
				n++
				if got != q.want {
					if len(got) > 200 {
						got = got[:200]
					}
					bad = append(bad, fmt.Sprintf("query %d: %s answered %q, primary answered %q", qi, sv, got, q.want))
				}
				mu.Unlock()
			}(qi, q, sv)
		}
	}
	wg.Wait()
	return n, bad
}
