package main

import (
	"fmt"
	"sort"
	"strings"

	"golang.org/x/tools/go/ssa"
)

// A happens-before data-race detector (vector clocks, FastTrack style) over the schedules the
// engine explores. It is enabled per job (parameter RACE=1). Happens-before edges: go
// statements, mutex release -> acquire, channel send / close -> receive (per channel, which
// over-approximates the order and can therefore only hide races, never invent one), sync.Once,
// WaitGroup, atomics, sync.Pool Put -> Get, context cancellation -> Done/Err, verifQuiesce.
// Only accesses made by repository code (not by harness code) are recorded, so a reported race
// is between two repository functions. Accesses through a symbolic index are not recorded.

type vclock []int

func (v vclock) at(i int) int {
	if i < len(v) {
		return v[i]
	}
	return 0
}

func vjoin(a, b vclock) vclock {
	if len(b) > len(a) {
		a = append(a, make(vclock, len(b)-len(a))...)
	}
	for i, x := range b {
		if x > a[i] {
			a[i] = x
		}
	}
	return a
}

type locKey struct {
	obj  int
	hash uint64
	n    int
}

type shadowLoc struct {
	wg, wc int
	wfn    string
	rc     map[int]int
	rfn    map[int]string
}

func (e *Exec) raceInit(g *Goroutine, parent *Goroutine) {
	if !e.raceOn {
		return
	}
	if parent != nil {
		g.vc = append(vclock{}, parent.vc...)
		e.tick(parent)
	}
	g.vc = vjoin(g.vc, make(vclock, g.id+1))
	g.vc[g.id]++
}

func (e *Exec) tick(g *Goroutine) {
	g.vc = vjoin(g.vc, make(vclock, g.id+1))
	g.vc[g.id]++
}

func (e *Exec) rel(g *Goroutine, key interface{}) {
	if !e.raceOn || g == nil {
		return
	}
	if e.syncVC == nil {
		e.syncVC = map[interface{}]vclock{}
	}
	e.syncVC[key] = vjoin(e.syncVC[key], g.vc)
	e.tick(g)
}

func (e *Exec) acq(g *Goroutine, key interface{}) {
	if !e.raceOn || g == nil {
		return
	}
	if v, ok := e.syncVC[key]; ok {
		g.vc = vjoin(g.vc, v)
	}
}

func isHarnessFn(prog *ssa.Program, fn *ssa.Function) bool {
	if fn == nil {
		return true
	}
	f := fn
	for f.Parent() != nil {
		f = f.Parent()
	}
	if f.Pos().IsValid() {
		return strings.Contains(prog.Fset.Position(f.Pos()).Filename, "zz_verif_")
	}
	// synthetic wrappers etc.: look at the name
	return strings.Contains(f.Name(), "verif") || strings.HasPrefix(f.Name(), "Verif")
}

func (e *Exec) access(p Ptr, write bool) {
	if !e.raceOn || len(e.gs) < 2 || e.cur == nil || len(e.cur.stack) == 0 || p.obj == nil {
		return
	}
	if p.idx != nil && !p.idx.IsConst() {
		return
	}
	g := e.cur
	fn := g.stack[len(g.stack)-1].fn
	if isHarnessFn(e.prog, fn) {
		return
	}
	k := locKey{obj: p.obj.id, n: len(p.path)}
	h := uint64(1469598103934665603)
	for _, x := range p.path {
		h = (h ^ uint64(x)) * 1099511628211
	}
	if p.idx != nil {
		h = (h ^ p.idx.val ^ 0x9e3779b97f4a7c15) * 1099511628211
	}
	k.hash = h
	if e.shadow == nil {
		e.shadow = map[locKey]*shadowLoc{}
	}
	s := e.shadow[k]
	if s == nil {
		s = &shadowLoc{wg: -1}
		e.shadow[k] = s
	}
	report := func(og int, ofn string, what string) {
		names := []string{fn.String(), ofn}
		sort.Strings(names)
		loc := p.obj.tag
		if p.obj.typ != nil {
			loc = p.obj.typ.String()
		}
		if e.pendingRace != nil {
			return
		}
		// not the end of the path: what the racing goroutines go on to do (a failed assertion, a
		// panic) is the stronger finding; the race is the path's verdict only if nothing else fails
		e.pendingRace = &pathEnd{kind: "race", msg: fmt.Sprintf("data race (%s) on %s%v between g%d %s and g%d %s", what, loc, p.path, g.id, fn.String(), og, ofn),
			key: "race: " + loc + fmt.Sprint(p.path) + " " + names[0] + " | " + names[1]}
	}
	if s.wg >= 0 && s.wg != g.id && s.wc > g.vc.at(s.wg) {
		if write {
			report(s.wg, s.wfn, "write/write")
		}
		report(s.wg, s.wfn, "write/read")
	}
	if write {
		for og, oc := range s.rc {
			if og != g.id && oc > g.vc.at(og) {
				report(og, s.rfn[og], "read/write")
			}
		}
		s.wg, s.wc, s.wfn = g.id, g.vc.at(g.id), fn.String()
		s.rc, s.rfn = nil, nil
	} else {
		if s.rc == nil {
			s.rc, s.rfn = map[int]int{}, map[int]string{}
		}
		s.rc[g.id], s.rfn[g.id] = g.vc.at(g.id), fn.String()
	}
}
