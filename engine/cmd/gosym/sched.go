package main

import (
	"fmt"
	"go/types"

	"golang.org/x/tools/go/ssa"
)

type chanElem interface{ Elem() types.Type }

type selCase struct {
	c    *ChanObj
	send bool
	v    Value
}

type waitInfo struct {
	cases   []selCase
	done    bool
	doneIdx int
	doneVal Value
	doneOk  bool
}

func (e *Exec) waitOf(g *Goroutine) *waitInfo {
	if e.waits == nil {
		e.waits = map[*Goroutine]*waitInfo{}
	}
	return e.waits[g]
}

// partner finds another goroutine blocked on the complementary operation of c.
func (e *Exec) partner(g *Goroutine, c *ChanObj, wantSender bool) (*Goroutine, int) {
	for _, h := range e.gs {
		if h == g || h.state != GBlocked {
			continue
		}
		w := e.waitOf(h)
		if w == nil || w.done {
			continue
		}
		for i, sc := range w.cases {
			if sc.c == c && sc.send == wantSender {
				return h, i
			}
		}
	}
	return nil, -1
}

func (e *Exec) caseReady(g *Goroutine, sc selCase) bool {
	c := sc.c
	if c == nil {
		return false
	}
	if sc.send {
		if c.closed || len(c.buf) < c.cap {
			return true
		}
		if c.cap == 0 {
			h, _ := e.partner(g, c, false)
			return h != nil
		}
		return false
	}
	if len(c.buf) > 0 || c.closed {
		return true
	}
	if c.timer {
		if e.frozenTime || c.stopped {
			return false
		}
		if c.ticker {
			return c.fires < e.job.MaxTicks
		}
		return c.fires == 0
	}
	if c.ctx != nil && c.ctx.timeout && !e.frozenTime {
		return true // the deadline may pass now
	}
	h, _ := e.partner(g, c, true)
	return h != nil
}

// doSelect performs a (possibly single-case) channel operation.
// Returns (index, value, ok, blocked). index -1 = default.
func (e *Exec) doSelect(g *Goroutine, cases []selCase, hasDefault bool, in ssa.Instruction) (int, Value, bool, bool) {
	if w := e.waitOf(g); w != nil {
		delete(e.waits, g)
		if w.done {
			return w.doneIdx, w.doneVal, w.doneOk, false
		}
	}
	var ready []int
	for i, sc := range cases {
		if e.caseReady(g, sc) {
			ready = append(ready, i)
		}
	}
	// A timer or a context deadline may fire at any time, but time passing while other
	// goroutines can still run is the exceptional order: it is explored only against the delay
	// budget. Otherwise the select lets the others run first (they are re-examined when this
	// goroutine is resumed), so that a loop around a time-out cannot starve the goroutine whose
	// answer it is waiting for.
	isSpont := func(i int) bool {
		sc := cases[i]
		c := sc.c
		return !sc.send && len(c.buf) == 0 && !c.closed && (c.timer || (c.ctx != nil && c.ctx.timeout))
	}
	if len(ready) > 1 {
		// a time-out that beats an operation which is ready as well: against the budget only
		var solid []int
		for _, i := range ready {
			if !isSpont(i) {
				solid = append(solid, i)
			}
		}
		if len(solid) > 0 && len(solid) < len(ready) {
			if e.preempts > 0 && e.choose(2) == 1 {
				e.preempts--
				e.sched++
				var sp []int
				for _, i := range ready {
					if isSpont(i) {
						sp = append(sp, i)
					}
				}
				ready = sp
			} else {
				ready = solid
			}
		}
	}
	if len(ready) > 0 && hasDefault {
		// a non-blocking poll: a time-out that has not been seen to pass is "not yet" unless the
		// budget says otherwise
		spont := true
		for _, i := range ready {
			if !isSpont(i) {
				spont = false
				break
			}
		}
		if spont {
			if e.preempts > 0 && e.choose(2) == 1 {
				e.preempts--
				e.sched++
			} else {
				return -1, nil, false, false
			}
		}
	}
	if len(ready) > 0 && !hasDefault {
		spont := true
		for _, i := range ready {
			if !isSpont(i) {
				spont = false
				break
			}
		}
		if spont {
			others := false
			for _, o := range e.runnable() {
				if o != g {
					others = true
					break
				}
			}
			if others {
				fire := false
				if e.preempts > 0 && e.choose(2) == 1 {
					fire = true
					e.preempts--
					e.sched++
				}
				if !fire {
					e.waits[g] = &waitInfo{cases: cases}
					e.block(g, fmt.Sprintf("chan-op (time-out pending) at %s", e.pos2(in)), func() bool { return true })
					return 0, nil, false, true
				}
			}
		}
	}
	if len(ready) > 0 {
		k := ready[e.choose(len(ready))]
		sc := cases[k]
		c := sc.c
		if sc.send {
			if c.closed {
				panic(e.panicEnd(in, "send on closed channel"))
			}
			e.rel(g, c)
			if len(c.buf) < c.cap {
				c.buf = append(c.buf, sc.v)
				return k, nil, false, false
			}
			h, hi := e.partner(g, c, false)
			e.acq(h, c)
			hw := e.waitOf(h)
			hw.done, hw.doneIdx, hw.doneVal, hw.doneOk = true, hi, sc.v, true
			return k, nil, false, false
		}
		e.acq(g, c)
		if len(c.buf) > 0 {
			v := c.buf[0]
			c.buf = c.buf[1:]
			// a blocked sender on a full buffered channel can now proceed by itself
			return k, v, true, false
		}
		if c.closed {
			return k, nil, false, false
		}
		if c.timer {
			c.fires++
			return k, nil, true, false
		}
		if c.ctx != nil && c.ctx.timeout {
			c.ctx.deadline = true
			e.cancelCtx(c.ctx)
			e.dlPassed(c.ctx.dl)
			return k, nil, false, false
		}
		h, hi := e.partner(g, c, true)
		e.rel(h, c)
		e.acq(g, c)
		hw := e.waitOf(h)
		v := hw.cases[hi].v
		hw.done, hw.doneIdx = true, hi
		return k, v, true, false
	}
	if hasDefault {
		return -1, nil, false, false
	}
	w := &waitInfo{cases: cases}
	e.waits[g] = w
	e.block(g, fmt.Sprintf("chan-op at %s", e.pos2(in)), func() bool {
		if w.done {
			return true
		}
		for _, sc := range cases {
			if e.caseReady(g, sc) {
				return true
			}
		}
		return false
	})
	return 0, nil, false, true
}

func (e *Exec) chanRecv(g *Goroutine, c ChanV, in ssa.Instruction) (Value, bool, bool) {
	if e.waitOf(g) == nil && e.syncPoint(g) {
		return nil, false, true
	}
	_, v, ok, blocked := e.doSelect(g, []selCase{{c: c.c}}, false, in)
	if blocked {
		return nil, false, true
	}
	if v == nil {
		v = e.zero(in.(*ssa.UnOp).X.Type().Underlying().(chanElem).Elem())
	}
	return v, ok, false
}

func (e *Exec) chanSend(g *Goroutine, c ChanV, v Value, in ssa.Instruction) bool {
	if e.waitOf(g) == nil && e.syncPoint(g) {
		return true
	}
	_, _, _, blocked := e.doSelect(g, []selCase{{c: c.c, send: true, v: v}}, false, in)
	return blocked
}

func (e *Exec) selectOp(g *Goroutine, fr *Frame, in *ssa.Select) bool {
	if e.waitOf(g) == nil && e.syncPoint(g) {
		return true
	}
	var cases []selCase
	for _, st := range in.States {
		sc := selCase{c: e.get(fr, st.Chan).(ChanV).c}
		if st.Send != nil {
			sc.send = true
			sc.v = e.get(fr, st.Send)
		}
		cases = append(cases, sc)
	}
	idx, v, ok, blocked := e.doSelect(g, cases, !in.Blocking, in)
	if blocked {
		return true
	}
	res := TupleV{e.tt.Const(64, uint64(int64(idx))), e.tt.Bool(ok)}
	for i, st := range in.States {
		if st.Send != nil {
			continue
		}
		var rv Value
		if i == idx && v != nil {
			rv = v
		} else {
			rv = e.zero(st.Chan.Type().Underlying().(chanElem).Elem())
		}
		res = append(res, rv)
	}
	fr.set(in, res)
	return false
}
