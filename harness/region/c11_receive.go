package region

import (
	"context"

	"github.com/tsuna/gohbase/hrpc"
	"github.com/tsuna/gohbase/pb"
	"google.golang.org/protobuf/proto"
)

// C11 (region layer) — whatever a regionserver sends as a response frame for an outstanding
// get / mutate / scan / multi call, (*client).receive neither panics nor strands the caller:
// it either delivers exactly one result to every affected live call, or returns a ServerError
// with the call still registered (so that fail() completes it, C03).
// Real code: receive, unregisterRPC, inFlightDown, returnResult, exceptionToError,
// (*multi).DeserializeCellBlocks/returnResults/get, the hrpc DeserializeCellBlocks methods,
// decompressCellblocks (when a compressor is configured), protowire.ConsumeBytes, io.ReadFull.

var vClassNames = []string{
	"java.io.IOException",
	"org.apache.hadoop.hbase.NotServingRegionException",
	"org.apache.hadoop.hbase.CallQueueTooBigException",
	"org.apache.hadoop.hbase.regionserver.RegionServerStoppedException",
	"x.Unknown",
}

func vOptString(list []string) *string {
	k := verifChoose(len(list) + 1)
	if k == 0 {
		return nil
	}
	return proto.String(list[k-1])
}

// vCellMeta: absent, present without a length, or present with an arbitrary 32-bit length.
func vCellMeta() *pb.CellBlockMeta {
	switch verifChoose(3) {
	case 0:
		return nil
	case 1:
		return &pb.CellBlockMeta{}
	}
	l := verifU32()
	return &pb.CellBlockMeta{Length: &l}
}

// vCellMetaNear: the declared length is the real one, off by one either way, or absent.
func vCellMetaNear(n int) *pb.CellBlockMeta {
	var l uint32
	switch verifChoose(4) {
	case 0:
		return nil
	case 1:
		l = uint32(n)
	case 2:
		l = uint32(n) + 1
	case 3:
		if n == 0 {
			return &pb.CellBlockMeta{}
		}
		l = uint32(n) - 1
	}
	return &pb.CellBlockMeta{Length: &l}
}

func vPbResult() *pb.Result {
	if verifChoose(2) == 0 {
		return nil
	}
	r := &pb.Result{}
	if verifChoose(2) == 1 {
		n := verifI32()
		verifAssume(n >= 0 && n <= int32(verifParam("MAXCELLS"))) // allocation size is outside the claim
		r.AssociatedCellCount = &n
	}
	return r
}

// vNameBytes: a per-action / per-region exception of a class the client knows or does not.
func vNameBytes() *pb.NameBytesPair {
	names := []string{"org.apache.hadoop.hbase.NotServingRegionException", "x.Unknown"}
	return &pb.NameBytesPair{Name: proto.String(names[verifChoose(2)]), Value: []byte("at x.y")}
}

// vMultiResponse: an arbitrary MultiResponse within the shape bound (R region results × A
// result-or-exceptions each; any index: absent, 0, in range, of a dropped call, out of range,
// repeated; result / exception / both / neither; region-level exceptions with or without
// results).
func vMultiResponse(ncalls int) *pb.MultiResponse {
	mr := &pb.MultiResponse{}
	nr := verifChoose(verifParam("R") + 1)
	for i := 0; i < nr; i++ {
		rar := &pb.RegionActionResult{}
		na := verifChoose(verifParam("A") + 1)
		if verifChoose(2) == 1 {
			rar.Exception = vNameBytes()
			if na > 1 {
				na = 1 // results next to a region exception are rejected whatever they look like
			}
		}
		for j := 0; j < na; j++ {
			roe := &pb.ResultOrException{}
			if verifChoose(2) == 1 {
				idx := verifU32()
				verifAssume(idx < 128) // one-byte varint; the interesting range is 0 .. ncalls+1
				roe.Index = &idx
			}
			if rar.Exception == nil {
				switch verifChoose(4) {
				case 0:
					roe.Result = vPbResult()
				case 1:
					roe.Exception = vNameBytes()
				case 2:
					roe.Result = &pb.Result{}
					roe.Exception = &pb.NameBytesPair{Name: proto.String("x.Unknown")}
				case 3:
				}
			}
			rar.ResultOrException = append(rar.ResultOrException, roe)
		}
		mr.RegionActionResult = append(mr.RegionActionResult, rar)
	}
	return mr
}

// vMultiCellsResponse: one result per live call, indices in order of the calls, region results
// grouped as the request was; each result with an arbitrary associated cell count.
func vMultiCellsResponse(m *multi, live []hrpc.Call) *pb.MultiResponse {
	mr := &pb.MultiResponse{}
	for _, reg := range m.regions {
		rar := &pb.RegionActionResult{}
		for i, c := range m.calls {
			if c == nil || c.Region() != reg {
				continue
			}
			roe := &pb.ResultOrException{Index: proto.Uint32(uint32(i + 1))}
			if verifChoose(3) == 0 {
				roe.Exception = vNameBytes()
			} else {
				roe.Result = vPbResult()
				if roe.Result == nil {
					roe.Result = &pb.Result{}
				}
			}
			rar.ResultOrException = append(rar.ResultOrException, roe)
		}
		mr.RegionActionResult = append(mr.RegionActionResult, rar)
	}
	return mr
}

func vReceive(kind int) {
	conn := &vConn{}
	c := vNewClient(conn, 1)
	ctx := context.Background()
	regA, regB := vReg("t,,1"), vReg("t,m,2")

	var rpc hrpc.Call
	var calls []hrpc.Call
	var inflightCancel context.CancelFunc
	var mkResp func() proto.Message // built only for frames whose header is in order
	var plain proto.Message
	switch kind {
	case 0:
		g := vGet(ctx, "k", regA)
		rpc, calls = g, []hrpc.Call{g}
		plain = &pb.GetResponse{}
		mkResp = func() proto.Message { return &pb.GetResponse{Result: vPbResult()} }
	case 1:
		p := vPut(ctx, "k", regA)
		rpc, calls = p, []hrpc.Call{p}
		plain = &pb.MutateResponse{}
		mkResp = func() proto.Message { return &pb.MutateResponse{Result: vPbResult()} }
	case 2:
		s := vScan(ctx, regA)
		rpc, calls = s, []hrpc.Call{s}
		plain = &pb.ScanResponse{}
		mkResp = func() proto.Message {
			sr := &pb.ScanResponse{}
			nc, np := verifChoose(3), verifChoose(3)
			for i := 0; i < nc; i++ {
				n := verifU32()
				verifAssume(n <= uint32(verifParam("MAXCELLS")))
				sr.CellsPerResult = append(sr.CellsPerResult, n)
			}
			for i := 0; i < np; i++ {
				sr.PartialFlagPerResult = append(sr.PartialFlagPerResult, verifBool())
			}
			return sr
		}
	default:
		// a multi of 2..3 calls over two regions; one of them may have been dropped at send
		// time because its context had expired (m.calls[i] == nil)
		m := newMulti(3)
		cctx, ccancel := context.WithCancel(ctx)
		inflightCancel = ccancel
		calls = []hrpc.Call{vGet(cctx, "a", regA), vPut(ctx, "n", regB)}
		if verifParam("CALLS3") == 1 && verifChoose(2) == 1 {
			calls = append(calls, vGet(ctx, "b", regA))
		}
		m.add(calls)
		m.regions = []hrpc.RegionInfo{regA, regB}
		if verifChoose(2) == 1 {
			m.calls[0] = nil
			calls = calls[1:]
		}
		rpc = m
		plain = &pb.MultiResponse{}
		n := len(m.calls)
		live := calls
		mkResp = func() proto.Message {
			if verifParam("CELLS") == 1 {
				return vMultiCellsResponse(m, live)
			}
			return vMultiResponse(n)
		}
	}
	c.sent[1] = rpc
	c.id = 1
	c.inFlight = 1

	// The frame. The dimensions that cannot influence one another are not multiplied out: a
	// frame that is cut short, a header that does not decode, a header for nobody and a header
	// carrying an exception are each explored with an otherwise plain frame.
	h := &pb.ResponseHeader{CallId: proto.Uint32(1)}
	hdrFails, respFails, cut := false, false, false
	var cells []byte
	switch verifChoose(5) {
	case 0:
		cut = true
	case 1:
		hdrFails = true
	case 2:
		if verifChoose(2) == 0 {
			h.CallId = nil
		} else {
			h.CallId = proto.Uint32(7) // nobody is waiting for this id
		}
	case 3:
		h.Exception = &pb.ExceptionResponse{
			ExceptionClassName: vOptString(vClassNames),
			StackTrace:         vOptString([]string{"Cannot append; log is closed"}),
		}
		h.CellBlockMeta = vCellMeta()
	case 4:
		// kind 3 (multi) is explored in two jobs so that the shape of the response and the
		// cellblock dimensions are not multiplied out: CELLS=0 arbitrary response shapes
		// without a cellblock, CELLS=1 well-indexed responses with arbitrary cell counts,
		// cellblock bytes and declared lengths.
		if kind != 3 {
			h.CellBlockMeta = vCellMeta()
			if verifChoose(2) == 1 {
				cells = verifBytesN(verifParam("N"))
			}
		} else if verifParam("CELLS") == 1 {
			if verifChoose(2) == 1 {
				cells = verifBytesN(verifParam("N"))
			}
			h.CellBlockMeta = vCellMetaNear(len(cells))
		}
		respFails = verifChoose(2) == 1
		if !respFails {
			plain = mkResp()
		}
	}
	body := vAppendDelimited(nil, vWire(h, hdrFails))
	if h.Exception == nil {
		body = vAppendDelimited(body, vWire(plain, respFails))
	}
	body = append(body, cells...)
	declared := uint32(len(body))
	if cut {
		declared++ // the stream ends inside the frame: ReadFull fails
	} else if len(cells) > 0 && verifChoose(2) == 1 {
		declared-- // frame boundary inside the cellblock
	}

	gaveUp := false
	if inflightCancel != nil && len(cells) > 0 && verifBool() {
		// the caller of the first call gives up while the request is in flight
		inflightCancel()
		gaveUp = true
	}
	err := c.receive(&vReader{b: vFrame(body, declared)})
	vPending, vUnmarshalFails = nil, nil

	_, stillRegistered := c.sent[1]
	_, isServerErr := err.(ServerError)
	verifObserveBool("err", err != nil)
	verifObserveBool("registered", stillRegistered)
	if stillRegistered {
		verifAssert(isServerErr, "a response that does not complete its call fails the connection")
		for _, cl := range calls {
			verifAssert(vResults(cl) == 0, "a call that stays registered has not been answered")
		}
		verifReach("left-registered")
	} else {
		for _, cl := range calls {
			if gaveUp && cl.Context().Err() != nil {
				verifAssert(vResults(cl) <= 1, "a caller that gave up gets at most one result")
				continue
			}
			verifAssert(vResults(cl) == 1, "every live call of the answered request gets exactly one result")
		}
		verifReach("answered")
	}
}

func VerifReceiveGet()    { vReceive(0) }
func VerifReceiveMutate() { vReceive(1) }
func VerifReceiveScan()   { vReceive(2) }
func VerifReceiveMulti()  { vReceive(3) }
