package region

// C04 (a) — classification of server exceptions, for EVERY class-name string (symbolic bytes
// and length): the listed retry-later classes map to RetryableError, the region classes to
// NotServingRegionError (java.io.IOException only with its "log is closed" stack), the server
// classes to ServerError, every other name to a plain error that is returned unchanged.
// Real code: exceptionToError and the three class tables.

var vRetryClasses = []string{
	"org.apache.hadoop.hbase.CallQueueTooBigException",
	"org.apache.hadoop.hbase.exceptions.RegionOpeningException",
	"org.apache.hadoop.hbase.quotas.RpcThrottlingException",
	"org.apache.hadoop.hbase.RetryImmediatelyException",
	"org.apache.hadoop.hbase.RegionTooBusyException",
	"org.apache.hadoop.hbase.PleaseHoldException",
}
var vRegionClasses = []string{
	"org.apache.hadoop.hbase.NotServingRegionException",
	"org.apache.hadoop.hbase.exceptions.RegionMovedException",
}
var vServerClasses = []string{
	"org.apache.hadoop.hbase.regionserver.RegionServerAbortedException",
	"org.apache.hadoop.hbase.regionserver.RegionServerStoppedException",
	"org.apache.hadoop.hbase.exceptions.MasterStoppedException",
	"org.apache.hadoop.hbase.ipc.ServerNotRunningYetException",
}

func vIn(s string, list []string) bool {
	for _, x := range list {
		if s == x {
			return true
		}
	}
	return false
}

func VerifClassify() {
	class := verifString(verifParam("L"))
	// the class of an exception is the class the server names, whatever its stack trace mentions
	stacks := []string{"", "at x.y", "java.io.IOException: Cannot append; log is closed\n at z",
		"x.Wrapper: failed\n\tat a.b(C.java:1)\nCaused by: org.apache.hadoop.hbase.NotServingRegionException: other,,1 is not online\n\tat d.e",
		"Caused by: org.apache.hadoop.hbase.RegionTooBusyException: busy\n  Caused by: org.apache.hadoop.hbase.regionserver.RegionServerStoppedException"}
	si := verifChoose(len(stacks))
	stack := stacks[si]
	err := exceptionToError(class, stack)
	verifAssert(err != nil, "an exception is an error")
	_, isRetry := err.(RetryableError)
	_, isRegion := err.(NotServingRegionError)
	_, isServer := err.(ServerError)
	switch {
	case vIn(class, vRetryClasses):
		verifReach("retry-later")
		verifAssert(isRetry, "retry-later classes are retried after a back-off")
	case vIn(class, vRegionClasses) || (class == "java.io.IOException" && si == 2):
		verifReach("region")
		verifAssert(isRegion, "region classes trigger re-establishment of the region")
	case vIn(class, vServerClasses):
		verifReach("server")
		verifAssert(isServer, "server classes declare the connection dead")
	default:
		verifReach("other")
		verifAssert(!isRetry && !isRegion && !isServer, "every other exception is returned to the caller and not retried")
	}
}
