package region

import (
	"context"

	"github.com/tsuna/gohbase/hrpc"
	"github.com/tsuna/gohbase/pb"
	"google.golang.org/protobuf/proto"
)

// C04 (a) — classification of server exceptions, for EVERY class-name string (symbolic bytes
// and length): the listed retry-later classes map to RetryableError, the region classes to
// NotServingRegionError (java.io.IOException only with its "log is closed" stack), the server
// classes to ServerError, every other name to a plain error that is returned unchanged.
// Real code: exceptionToError and the three class tables.

var vRetryClasses = []string{
	"org.apache.hadoop.hbase.CallQueueTooBigException",
	"org.apache.hadoop.hbase.exceptions.RegionOpeningException",
	"org.apache.hadoop.hbase.quotas.RpcThrottlingException",
	"org.apache.hadoop.hbase.RetryImmediatelyException",
	"org.apache.hadoop.hbase.RegionTooBusyException",
	"org.apache.hadoop.hbase.PleaseHoldException",
}
var vRegionClasses = []string{
	"org.apache.hadoop.hbase.NotServingRegionException",
	"org.apache.hadoop.hbase.exceptions.RegionMovedException",
}
var vServerClasses = []string{
	"org.apache.hadoop.hbase.regionserver.RegionServerAbortedException",
	"org.apache.hadoop.hbase.regionserver.RegionServerStoppedException",
	"org.apache.hadoop.hbase.exceptions.MasterStoppedException",
	"org.apache.hadoop.hbase.ipc.ServerNotRunningYetException",
}

func vIn(s string, list []string) bool {
	for _, x := range list {
		if s == x {
			return true
		}
	}
	return false
}

func VerifClassify() {
	class := verifString(verifParam("L"))
	// the class of an exception is the class the server names, whatever its stack trace mentions
	stacks := []string{"", "at x.y", "java.io.IOException: Cannot append; log is closed\n at z",
		"x.Wrapper: failed\n\tat a.b(C.java:1)\nCaused by: org.apache.hadoop.hbase.NotServingRegionException: other,,1 is not online\n\tat d.e",
		"Caused by: org.apache.hadoop.hbase.RegionTooBusyException: busy\n  Caused by: org.apache.hadoop.hbase.regionserver.RegionServerStoppedException"}
	si := verifChoose(len(stacks))
	stack := stacks[si]
	err := exceptionToError(class, stack)
	verifAssert(err != nil, "an exception is an error")
	_, isRetry := err.(RetryableError)
	_, isRegion := err.(NotServingRegionError)
	_, isServer := err.(ServerError)
	switch {
	case vIn(class, vRetryClasses):
		verifReach("retry-later")
		verifAssert(isRetry, "retry-later classes are retried after a back-off")
	case vIn(class, vRegionClasses) || (class == "java.io.IOException" && si == 2):
		verifReach("region")
		verifAssert(isRegion, "region classes trigger re-establishment of the region")
	case vIn(class, vServerClasses):
		verifReach("server")
		verifAssert(isServer, "server classes declare the connection dead")
	default:
		verifReach("other")
		verifAssert(!isRetry && !isRegion && !isServer, "every other exception is returned to the caller and not retried")
	}
}

// VerifClassifyInMulti: the exceptions of the actions of one multi-response are classified each
// on its own: two java.io.IOException of which only one is the "log is closed" region fault
// (and a region-class and a plain exception), in either order, give each call the error of its
// own exception - a region fault is retried, an application error surfaces.
func VerifClassifyInMulti() {
	conn := &vConn{}
	c := vNewClient(conn, 4)
	reg := vReg("t,,1")
	type exc struct {
		class, stack string
		region       bool
	}
	kinds := []exc{
		{"java.io.IOException", "java.io.IOException: Cannot append; log is closed\n at z", true},
		{"java.io.IOException", "java.io.IOException: disk quota exceeded\n at z", false},
		{"org.apache.hadoop.hbase.NotServingRegionException", "at x.y", true},
		{"x.ActionFailed", "at x.y", false},
	}
	m := newMulti(4)
	calls := []hrpc.Call{vGet(context.Background(), "a", reg), vGet(context.Background(), "b", reg)}
	m.add(calls)
	verifAssert(c.trySend(m) == nil, "send")
	var id uint32
	for k := range c.sent {
		id = k
	}
	rar := &pb.RegionActionResult{}
	var want []bool
	for i := range calls {
		k := kinds[verifChoose(len(kinds))]
		want = append(want, k.region)
		rar.ResultOrException = append(rar.ResultOrException, &pb.ResultOrException{Index: proto.Uint32(uint32(i + 1)),
			Exception: &pb.NameBytesPair{Name: proto.String(k.class), Value: []byte(k.stack)}})
	}
	mr := &pb.MultiResponse{RegionActionResult: []*pb.RegionActionResult{rar}}
	h := &pb.ResponseHeader{CallId: proto.Uint32(id)}
	body := vAppendDelimited(nil, vWire(h, false))
	body = vAppendDelimited(body, vWire(mr, false))
	err := c.receive(&vReader{b: vFrame(body, uint32(len(body)))})
	vPending, vUnmarshalFails = nil, nil
	verifAssert(err == nil, "a conforming multi-response is processed")
	for i, cl := range calls {
		verifAssert(vResults(cl) == 1, "every caller of the multi gets exactly one result")
		r := <-cl.ResultChan()
		verifAssert(r.Error != nil, "a failed action gets an error")
		_, isRegion := r.Error.(NotServingRegionError)
		_, isRetry := r.Error.(RetryableError)
		_, isServer := r.Error.(ServerError)
		verifAssert(isRegion == want[i], "each action's exception is classified on its own: a region fault is retried, an application error surfaces")
		verifAssert(!isRetry && !isServer, "none of these is a retry-later or a server fault")
	}
	verifReach("classified-in-multi")
}
