package region

import (
	"bytes"

	"github.com/tsuna/gohbase/hrpc"
	"github.com/tsuna/gohbase/pb"
	"google.golang.org/protobuf/proto"
)

// C11 (e) — arbitrary bytes read as an hbase:meta row cannot crash the client.
// Real code: ParseRegionInfo, infoFromCell, NewInfo.

// vRegionInfoValue returns the value of an info:regioninfo cell: either at most 4 arbitrary
// bytes (too short to carry a message), or "PBUF" followed by a RegionInfo that satisfies the
// proto2 contract (required fields set), or "PBUF" followed by undecodable bytes.
func vRegionInfoValue() ([]byte, *pb.RegionInfo) {
	switch verifChoose(3) {
	case 0:
		v := verifBytes(4)
		// an empty message lacks the required fields: the real decoder reports an error
		vExpectUnmarshal(&pb.RegionInfo{}, true)
		return v, nil
	case 1:
		return append([]byte("PBUF"), vWire(&pb.RegionInfo{}, true)...), nil
	}
	ri := &pb.RegionInfo{
		RegionId:  proto.Uint64(verifU64()),
		TableName: &pb.TableName{Namespace: [][]byte{[]byte("default"), []byte("n"), {}}[verifChoose(3)], Qualifier: []byte("t")},
	}
	if verifChoose(2) == 1 {
		ri.StartKey = verifBytesN(1)
	}
	if verifChoose(2) == 1 {
		ri.EndKey = verifBytesN(1)
	}
	if verifChoose(2) == 1 {
		ri.Offline = proto.Bool(verifBool())
	}
	return append([]byte("PBUF"), vWire(ri, false)...), ri
}

func VerifParseRegionInfo() {
	row := &hrpc.Result{}
	var ri *pb.RegionInfo
	hasInfo, hasServer := false, false
	// cells in the order HBase returns them (sorted by qualifier): regioninfo, an unrelated
	// qualifier, server — each present or absent
	if verifChoose(2) == 1 {
		hasInfo = true
		c := &hrpc.Cell{Row: []byte("t,,1"), Family: []byte("info"), Qualifier: []byte("regioninfo")}
		c.Value, ri = vRegionInfoValue()
		row.Cells = append(row.Cells, c)
	}
	if verifChoose(2) == 1 {
		row.Cells = append(row.Cells, &hrpc.Cell{Row: []byte("t,,1"), Family: []byte("info"),
			Qualifier: []byte("seqnumDuringOpen"), Value: verifBytes(1)})
	}
	if verifChoose(2) == 1 {
		c := &hrpc.Cell{Row: []byte("t,,1"), Family: []byte("info"), Qualifier: []byte("server"), Value: verifBytes(2)}
		hasServer = len(c.Value) > 0
		row.Cells = append(row.Cells, c)
	}
	_ = hasInfo
	reg, addr, err := ParseRegionInfo(row)
	vPending, vUnmarshalFails = nil, nil
	verifObserveBool("err", err != nil)
	if err == nil {
		verifReach("parsed")
		verifAssert(reg != nil && len(addr) > 0, "success means a region and a server address")
		verifAssert(ri != nil && hasServer, "success requires a decodable regioninfo and a server cell")
		verifAssert(reg.ID() == ri.GetRegionId(), "region id is the one in the row")
		verifAssert(bytes.Equal(reg.Table(), ri.TableName.Qualifier), "table is the one in the row")
		verifAssert(bytes.Equal(reg.StartKey(), ri.StartKey) && bytes.Equal(reg.StopKey(), ri.EndKey), "range is the one in the row")
		verifAssert(bytes.Equal(reg.Name(), []byte("t,,1")), "region name is the row key")
		verifAssert(!ri.GetOffline(), "an offline region is not returned")
	}
}

// exported access to the decoding seam for harnesses in other packages
func VerifWire(m proto.Message, fails bool) []byte { return vWire(m, fails) }
func VerifResetWire()                              { vPending, vUnmarshalFails = nil, nil }
