package region

import (
	"context"

	"github.com/tsuna/gohbase/hrpc"
	"github.com/tsuna/gohbase/pb"
	"google.golang.org/protobuf/proto"
)

// C18 — silent servers are detected; idle connections are left alone. Time is abstracted to
// the invariant that carries the property: whenever the connection is quiescent, the in-flight
// counter equals the number of written-and-unanswered requests and the read deadline is armed
// iff that number is > 0.
// Real code: trySend, send, marshalProto, registerRPC, unregisterRPC, inFlightUp, inFlightDown,
// receive, returnResult, hrpc.NewGet/Get.ToProto.
//
// The schedule is explicit: after the connection has accepted the bytes of a request, the
// harness decides (symbolic bool) whether the server's response is read and processed by the
// reader before Write returns to the sender, or later.

type vC18 struct {
	c        *client
	conn     *vConn
	answered map[uint32]bool
	early    []bool // per request: the response overtakes the sender
	silent   []bool // per request: the server never answers
	n        int
	onWrite  func(b []byte)
}

func (h *vC18) respond(id uint32) {
	hdr := vAppendDelimited(nil, vWire(&pb.ResponseHeader{CallId: proto.Uint32(id)}, false))
	body := vAppendDelimited(hdr, vWire(&pb.GetResponse{Result: &pb.Result{}}, false))
	err := h.c.receive(&vReader{b: vFrame(body, uint32(len(body)))})
	vPending, vUnmarshalFails = nil, nil // a response for a caller that gave up is not decoded
	verifAssert(err == nil, "a well-formed response is processed without error")
}

func VerifInFlight() {
	conn := &vConn{}
	c := vNewClient(conn, 1)
	h := &vC18{c: c, conn: conn}
	ncalls := verifParam("CALLS")
	for i := 0; i < ncalls; i++ {
		h.early = append(h.early, verifBool())
		h.silent = append(h.silent, verifBool())
	}
	h.onWrite = func(b []byte) {
		k := h.n
		h.n++
		if k < ncalls && h.early[k] && !h.silent[k] {
			h.respond(uint32(k + 1)) // the response is handled before Write returns
		}
	}
	conn.onWrite = h.onWrite
	reg := vReg("t,,1")
	var calls []hrpc.Call
	var gaveUp []bool
	for i := 0; i < ncalls; i++ {
		ctx, cancel := context.WithCancel(context.Background())
		g := vGet(ctx, "k", reg)
		calls = append(calls, g)
		gaveUp = append(gaveUp, false)
		if !h.early[i] && verifBool() {
			// the caller gives up after the request was written, its response still arrives
			gaveUp[i] = true
			defer cancel()
			conn.onWrite = func(b []byte) { cancel(); h.onWrite(b) }
		}
		err := c.trySend(g)
		conn.onWrite = h.onWrite
		verifAssert(err == nil, "send on a healthy connection succeeds")
		if !h.early[i] && !h.silent[i] && verifBool() {
			h.respond(uint32(i + 1)) // answered before the next request is sent
			h.early[i] = true
		}
	}
	// late responses, in request order
	for i := 0; i < ncalls; i++ {
		if !h.early[i] && !h.silent[i] {
			h.respond(uint32(i + 1))
		}
	}
	vPending, vUnmarshalFails = nil, nil
	outstanding := 0
	for i := 0; i < ncalls; i++ {
		if h.silent[i] {
			outstanding++
			verifAssert(vResults(calls[i]) == 0, "an unanswered request has no result")
		} else if gaveUp[i] {
			verifAssert(vResults(calls[i]) == 0, "a request whose caller gave up is not delivered")
		} else {
			verifAssert(vResults(calls[i]) == 1, "an answered request has its result")
		}
	}
	verifObserveInt("outstanding", outstanding)
	verifAssert(len(c.sent) == outstanding, "exactly the unanswered requests are registered")
	verifAssert(int(int32(c.inFlight)) == outstanding, "the in-flight counter equals the number of unanswered requests")
	if outstanding == 0 {
		verifReach("idle")
		verifAssert(!conn.armed, "an idle connection has no read deadline armed")
	} else {
		verifReach("waiting")
		verifAssert(conn.armed, "a connection with unanswered requests has its read deadline armed")
	}
}

// VerifInFlightConcurrent: the reader goroutine processes the response to request 1 while the
// sender writes request 2, which the server never answers — every interleaving at the
// synchronisation points (mutexes, connection calls): afterwards one request is outstanding
// and the read deadline must be armed.
func VerifInFlightConcurrent() {
	conn := &vConn{yield: true}
	c := vNewClient(conn, 1)
	h := &vC18{c: c, conn: conn}
	reg := vReg("t,,1")
	g1 := vGet(context.Background(), "a", reg)
	verifAssert(c.trySend(g1) == nil, "send 1")
	g2 := vGet(context.Background(), "b", reg)
	done := make(chan struct{})
	go func() {
		h.respond(1)
		close(done)
	}()
	verifAssert(c.trySend(g2) == nil, "send 2")
	<-done
	vPending, vUnmarshalFails = nil, nil
	verifAssert(vResults(g1) == 1 && vResults(g2) == 0, "request 1 answered, request 2 outstanding")
	verifAssert(int(int32(c.inFlight)) == 1, "one request in flight")
	verifAssert(conn.armed, "the read deadline is armed while a request is outstanding")
	verifReach("waiting")
}

// VerifInFlightTwoOvertaken: two senders have their requests on the wire and the reader handles
// both responses before either sender has counted its request up (every interleaving within the
// delay bound): afterwards nothing is outstanding, the counter is back at zero and no read
// deadline is left armed on the idle connection.
func VerifInFlightTwoOvertaken() {
	conn := &vConn{}
	c := vNewClient(conn, 1)
	h := &vC18{c: c, conn: conn}
	wrote := make(chan struct{}, 2)
	conn.onWrite = func(b []byte) { wrote <- struct{}{} }
	reg := vReg("t,,1")
	g1 := vGet(context.Background(), "a", reg)
	g2 := vGet(context.Background(), "b", reg)
	done := make(chan struct{}, 2)
	go func() {
		verifAssert(c.trySend(g1) == nil, "send 1")
		done <- struct{}{}
	}()
	go func() {
		verifAssert(c.trySend(g2) == nil, "send 2")
		done <- struct{}{}
	}()
	<-wrote
	<-wrote // both requests are on the wire
	h.respond(1)
	h.respond(2)
	<-done
	<-done
	vPending, vUnmarshalFails = nil, nil
	verifAssert(vResults(g1) == 1 && vResults(g2) == 1, "both requests are answered")
	verifAssert(int32(c.inFlight) == 0, "nothing is in flight")
	verifAssert(!conn.armed, "an idle connection has no read deadline armed")
	verifReach("idle-after-overtaking")
}
