package region

import (
	"context"

	"github.com/tsuna/gohbase/hrpc"
	"github.com/tsuna/gohbase/pb"
	"google.golang.org/protobuf/proto"
)

// C18 — silent servers are detected; idle connections are left alone. Time is abstracted to
// the invariant that carries the property: whenever the connection is quiescent, the in-flight
// counter equals the number of written-and-unanswered requests and the read deadline is armed
// iff that number is > 0.
// Real code: trySend, send, marshalProto, registerRPC, unregisterRPC, inFlightUp, inFlightDown,
// receive, returnResult, hrpc.NewGet/Get.ToProto.
//
// The schedule is explicit: after the connection has accepted the bytes of a request, the
// harness decides (symbolic bool) whether the server's response is read and processed by the
// reader before Write returns to the sender, or later.

type vC18 struct {
	c        *client
	conn     *vConn
	answered map[uint32]bool
	early    []bool // per request: the response overtakes the sender
	silent   []bool // per request: the server never answers
	n        int
}

func (h *vC18) respond(id uint32) {
	hdr := vAppendDelimited(nil, vWire(&pb.ResponseHeader{CallId: proto.Uint32(id)}, false))
	body := vAppendDelimited(hdr, vWire(&pb.GetResponse{Result: &pb.Result{}}, false))
	err := h.c.receive(&vReader{b: vFrame(body, uint32(len(body)))})
	verifAssert(err == nil, "a well-formed response is processed without error")
}

func VerifInFlight() {
	conn := &vConn{}
	c := vNewClient(conn, 1)
	h := &vC18{c: c, conn: conn}
	ncalls := verifParam("CALLS")
	for i := 0; i < ncalls; i++ {
		h.early = append(h.early, verifBool())
		h.silent = append(h.silent, verifBool())
	}
	conn.onWrite = func(b []byte) {
		k := h.n
		h.n++
		if k < ncalls && h.early[k] && !h.silent[k] {
			h.respond(uint32(k + 1)) // the response is handled before Write returns
		}
	}
	reg := vReg("t,,1")
	var calls []hrpc.Call
	for i := 0; i < ncalls; i++ {
		var ctx context.Context = context.Background()
		g := vGet(ctx, "k", reg)
		calls = append(calls, g)
		err := c.trySend(g)
		verifAssert(err == nil, "send on a healthy connection succeeds")
		if !h.early[i] && !h.silent[i] && verifBool() {
			h.respond(uint32(i + 1)) // answered before the next request is sent
			h.early[i] = true
		}
	}
	// late responses, in request order
	for i := 0; i < ncalls; i++ {
		if !h.early[i] && !h.silent[i] {
			h.respond(uint32(i + 1))
		}
	}
	vPending, vUnmarshalFails = nil, nil
	outstanding := 0
	for i := 0; i < ncalls; i++ {
		if h.silent[i] {
			outstanding++
			verifAssert(vResults(calls[i]) == 0, "an unanswered request has no result")
		} else {
			verifAssert(vResults(calls[i]) == 1, "an answered request has its result")
		}
	}
	verifObserveInt("outstanding", outstanding)
	verifAssert(len(c.sent) == outstanding, "exactly the unanswered requests are registered")
	verifAssert(int(int32(c.inFlight)) == outstanding, "the in-flight counter equals the number of unanswered requests")
	if outstanding == 0 {
		verifReach("idle")
		verifAssert(!conn.armed, "an idle connection has no read deadline armed")
	} else {
		verifReach("waiting")
		verifAssert(conn.armed, "a connection with unanswered requests has its read deadline armed")
	}
}
