package region

import (
	"context"
	"net"

	"github.com/tsuna/gohbase/hrpc"
	"github.com/tsuna/gohbase/pb"
	"google.golang.org/protobuf/proto"
)

// C03 — a failing connection completes every outstanding request exactly once.
// Real code: NewClient, Dial, sendHello, QueueRPC, QueueBatch, processRPCs, receiveRPCs, receive,
// trySend, send, write, marshalProto, registerRPC/unregisterRPC, fail, failSentRPCs,
// inFlightUp/Down, Close, returnResult, (*multi).add/toProto/returnResults, newMulti/freeMulti,
// bufio.Reader, io.ReadFull, net.Buffers.WriteTo.
//
// The connection is a fake whose k-th operation (Read, Write, SetReadDeadline,
// SetWriteDeadline; k symbolic) fails, a failing write possibly after a partial write; an
// external Close() may come at a symbolic moment; the server is silent (responses are the
// subject of C02). Goroutines: caller (main), batching goroutine, reader goroutine, closer.

func vIsServerError(err error) bool {
	_, ok := err.(ServerError)
	return ok
}

func VerifConnFailure() {
	conn := &vConn{readStall: make(chan struct{}), yield: true}
	conn.failAt = verifInt(0, verifParam("K")) // 0: no fault, the connection is closed externally
	conn.partial = verifInt(0, 1)
	dialer := func(ctx context.Context, network, addr string) (net.Conn, error) { return conn, nil }
	rc := NewClient("rs:1", RegionClient, 2, 0, "user", 0, nil, dialer, vLogger())
	c := rc.(*client)
	c.readTimeout = 1000000000
	err := c.Dial(context.Background())
	dialFailed := err != nil

	regA := vReg("t,,1")
	ctx := context.Background()
	g, _ := hrpc.NewGet(ctx, []byte("t"), []byte("k"), hrpc.SkipBatch())
	g.SetRegion(regA)
	p1, p2 := vPut(ctx, "a", regA), vPut(ctx, "b", regA)
	calls := []hrpc.Call{g, p1, p2}

	closeAt := verifInt(0, 2) // external Close before the single call / before the batch / at the end
	if closeAt == 0 {
		go c.Close()
	}
	c.QueueRPC(g)
	if closeAt == 1 {
		go c.Close()
	}
	c.QueueBatch(ctx, []hrpc.Call{p1, p2})
	verifQuiesce()
	// whatever is still healthy is closed now: afterwards everything must be completed
	c.Close()
	verifQuiesce()

	for _, cl := range calls {
		verifAssert(vResults(cl) == 1, "every request queued on the connection is completed exactly once")
		r := <-cl.ResultChan()
		verifAssert(r.Msg == nil && vIsServerError(r.Error), "it is completed with a connection-level error (the server was silent)")
	}
	verifAssert(verifGoroutines() == 0, "no goroutine of the region client is left running or blocked")
	verifAssert(conn.closed >= 1 || dialFailed, "the connection is closed")

	// requests handed to the connection afterwards are refused immediately
	g2, _ := hrpc.NewGet(ctx, []byte("t"), []byte("k2"), hrpc.SkipBatch())
	g2.SetRegion(regA)
	c.QueueRPC(g2)
	p3 := vPut(ctx, "c", regA)
	c.QueueBatch(ctx, []hrpc.Call{p3})
	c.QueueRPC(vPut(ctx, "d", regA)) // batchable call through QueueRPC
	for _, cl := range []hrpc.Call{g2, p3} {
		verifAssert(vResults(cl) == 1, "a request handed to a failed connection is refused immediately")
		r := <-cl.ResultChan()
		verifAssert(r.Error == ErrClientClosed, "it is refused with the client-closed error")
	}
	verifReach("failed")
}

// VerifFailureWithResponses: two requests are written, the server's responses arrive in any
// order and the connection's k-th operation fails (k symbolic: a write, or the arming / clearing
// of the read deadline on the sender's or the reader's side). The reader does what
// receiveRPCs does: a ServerError from receive fails the client. Every request is completed
// exactly once — with its response, or with a connection-level error.
func VerifFailureWithResponses() {
	conn := &vConn{}
	conn.failAt = verifInt(1, verifParam("K"))
	c := vNewClient(conn, 1)
	h := &vC18{c: c, conn: conn}
	reg := vReg("t,,1")
	ctx := context.Background()
	calls := []hrpc.Call{vGet(ctx, "a", reg), vGet(ctx, "b", reg)}
	for _, cl := range calls {
		if err := c.trySend(cl); err != nil {
			// what QueueRPC does with the error of a failed send
			returnResult(cl, nil, err)
		}
	}
	// the responses that were produced before the connection went down, in any order
	first := verifInt(0, 1)
	n := verifInt(0, 2)
	for k := 0; k < n; k++ {
		i := first
		if k == 1 {
			i = 1 - first
		}
		if _, outstanding := c.sent[uint32(i+1)]; !outstanding {
			continue // already failed: the reader has stopped
		}
		hdr := vAppendDelimited(nil, vWire(&pb.ResponseHeader{CallId: proto.Uint32(uint32(i + 1))}, false))
		body := vAppendDelimited(hdr, vWire(&pb.GetResponse{Result: &pb.Result{}}, false))
		err := h.c.receive(&vReader{b: vFrame(body, uint32(len(body)))})
		vPending, vUnmarshalFails = nil, nil
		if _, ok := err.(ServerError); ok {
			c.fail(err) // receiveRPCs: fail the client and stop reading
			break
		}
	}
	c.Close()
	for _, cl := range calls {
		verifAssert(vResults(cl) == 1, "every request is completed exactly once, whichever connection operation fails")
	}
	verifReach("completed")
}

// VerifFailureConcurrentReader: request B is in flight; while the reader goroutine handles B's
// response, the caller of request A is in the middle of its send and the connection's k-th
// operation fails (every interleaving within the delay bound): both requests are completed
// exactly once and the reader returns.
func VerifFailureConcurrentReader() {
	conn := &vConn{yield: true}
	c := vNewClient(conn, 1)
	h := &vC18{c: c, conn: conn}
	reg := vReg("t,,1")
	ctx := context.Background()
	b, a := vGet(ctx, "b", reg), vGet(ctx, "a", reg)
	verifAssert(c.trySend(b) == nil, "send B")
	conn.failAt = conn.ops + verifInt(1, verifParam("K"))
	readerDone := false
	go func() {
		hdr := vAppendDelimited(nil, vWire(&pb.ResponseHeader{CallId: proto.Uint32(1)}, false))
		body := vAppendDelimited(hdr, vWire(&pb.GetResponse{Result: &pb.Result{}}, false))
		err := h.c.receive(&vReader{b: vFrame(body, uint32(len(body)))})
		if _, ok := err.(ServerError); ok {
			c.fail(err)
		}
		readerDone = true
	}()
	if err := c.trySend(a); err != nil {
		returnResult(a, nil, err)
	}
	verifQuiesce()
	vPending, vUnmarshalFails = nil, nil
	c.Close()
	verifQuiesce()
	verifAssert(readerDone, "the reader is not stranded")
	verifAssert(vResults(b) == 1 && vResults(a) == 1, "both requests are completed exactly once")
	verifAssert(verifGoroutines() == 0, "no goroutine is left blocked")
	verifReach("completed")
}

// VerifFailureBlockedWriter: request B is in flight and the caller of request A is blocked
// inside Write (the peer has stopped reading; a blocked Write returns only when the connection
// is closed) when the connection is declared failed - by Close or by the reader: the connection
// is closed, which releases the writer, and both requests are completed exactly once.
func VerifFailureBlockedWriter() {
	conn := &vConn{}
	c := vNewClient(conn, 1)
	reg := vReg("t,,1")
	ctx := context.Background()
	b, a := vGet(ctx, "b", reg), vGet(ctx, "a", reg)
	verifAssert(c.trySend(b) == nil, "send B")
	conn.writeStall = make(chan struct{})
	senderDone := false
	go func() {
		if err := c.trySend(a); err != nil {
			returnResult(a, nil, err)
		}
		senderDone = true
	}()
	verifQuiesce()
	verifAssert(!senderDone, "the sender is blocked in Write")
	if verifBool() {
		c.Close()
	} else {
		c.fail(ServerError{vErrConn}) // what the reader does on a read error or time-out
	}
	verifQuiesce()
	verifAssert(conn.closed > 0, "a failed connection is closed")
	verifAssert(senderDone, "the blocked sender is released")
	verifAssert(vResults(b) == 1 && vResults(a) == 1, "both requests are completed exactly once")
	verifAssert(verifGoroutines() == 0, "no goroutine is left blocked")
	verifReach("writer-released")
}

// VerifFailureBigBatch: a batch larger than the send queue (3 calls, queue size 2) is handed to
// a real region client while the connection is being closed (every interleaving within the
// delay bound): however the batch travels to the writer, every call is completed exactly once
// with a connection-level error and nothing stays blocked.
func VerifFailureBigBatch() {
	conn := &vConn{readStall: make(chan struct{})}
	dialer := func(ctx context.Context, network, addr string) (net.Conn, error) { return conn, nil }
	rc := NewClient("rs:1", RegionClient, 2, 0, "user", 0, nil, dialer, vLogger())
	c := rc.(*client)
	c.readTimeout = 1000000000
	verifAssert(c.Dial(context.Background()) == nil, "dial")
	reg := vReg("t,,1")
	ctx := context.Background()
	calls := []hrpc.Call{vPut(ctx, "a", reg), vPut(ctx, "b", reg), vPut(ctx, "c", reg)}
	queued := make(chan struct{})
	go func() {
		c.QueueBatch(ctx, calls)
		close(queued)
	}()
	go c.Close()
	<-queued
	verifQuiesce()
	c.Close()
	verifQuiesce()
	for _, cl := range calls {
		verifAssert(vResults(cl) == 1, "every call of the batch is completed exactly once")
		r := <-cl.ResultChan()
		verifAssert(r.Msg == nil && (vIsServerError(r.Error) || r.Error == ErrClientClosed), "with a connection-level error")
	}
	verifAssert(verifGoroutines() == 0, "no goroutine of the region client is left running or blocked")
	verifReach("big-batch")
}
