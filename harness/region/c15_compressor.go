package region

import (
	"errors"
	"net"
)

// C15 / C11(d) — block-compressed cellblock streams. Real code: compressCellblocks,
// decompressCellblocks, readN, readUint32, min, newBuffer/freeBuffer (sync.Pool),
// net.Buffers.Read/consume, slices.Grow, binary.BigEndian.
//
// The codec is abstract: vCodec.Encode appends arbitrary bytes e of arbitrary (bounded) length
// and remembers (src, e); vCodec.Decode returns src for a remembered e and an arbitrary
// (bytes, error) for anything else — a lossless codec about which nothing else is assumed.
// golang/snappy itself is outside the claim.

type vPair struct{ src, enc []byte }

type vCodec struct {
	chunk   uint32
	maxEnc  int
	pairs   []vPair
	unknown int // Decode calls on bytes this codec never produced
	fixed   int // if > 0: every encoding is exactly this long
}

func (c *vCodec) Encode(src, dst []byte) ([]byte, uint32) {
	var e []byte
	if c.fixed > 0 {
		e = verifBytesN(c.fixed) // a chunk that expands a lot (incompressible data behind a long header)
	} else {
		e = verifBytes(c.maxEnc)
	}
	c.pairs = append(c.pairs, vPair{src: append([]byte{}, src...), enc: e})
	return append(dst, e...), uint32(len(e))
}

func (c *vCodec) Decode(src, dst []byte) ([]byte, uint32, error) {
	for _, p := range c.pairs {
		if vBytesEq(p.enc, src) {
			return append(dst, p.src...), uint32(len(p.src)), nil
		}
	}
	c.unknown++
	if verifChoose(2) == 0 {
		return nil, 0, errors.New("verif: corrupt chunk")
	}
	out := verifBytes(c.maxEnc)
	return append(dst, out...), uint32(len(out)), nil
}

func (c *vCodec) ChunkLen() uint32                 { return c.chunk }
func (c *vCodec) CellBlockCompressorClass() string { return "verif.Codec" }

func vBytesEq(a, b []byte) bool {
	if len(a) != len(b) {
		return false
	}
	for i := range a {
		if a[i] != b[i] {
			return false
		}
	}
	return true
}

func vU32(b []byte) uint32 {
	return uint32(b[0])<<24 | uint32(b[1])<<16 | uint32(b[2])<<8 | uint32(b[3])
}

func vPutU32(dst []byte, v uint32) []byte {
	return append(dst, byte(v>>24), byte(v>>16), byte(v>>8), byte(v))
}

// vHadoopRead is an independent reader of Hadoop's BlockCompressorStream layout: per block a
// 4-byte uncompressed length, then chunks (4-byte compressed length + data) until that many
// bytes have been produced. It returns the compressed chunks of each block.
func vHadoopRead(s []byte) (blockLens []uint32, chunks [][]byte, ok bool) {
	for len(s) > 0 {
		if len(s) < 4 {
			return nil, nil, false
		}
		bl := vU32(s)
		s = s[4:]
		blockLens = append(blockLens, bl)
		if bl == 0 {
			continue
		}
		// the reader cannot know chunk boundaries without the codec; the harness compares the
		// chunk list with the codec's log, so here all remaining chunks belong to this block
		for len(s) > 0 {
			if len(s) < 4 {
				return nil, nil, false
			}
			cl := int(vU32(s))
			s = s[4:]
			if len(s) < cl {
				return nil, nil, false
			}
			chunks = append(chunks, s[:cl])
			s = s[cl:]
		}
	}
	return blockLens, chunks, true
}

// VerifCompressRoundTrip (H1+H2): what the client compresses — payload of any size relative to
// the chunk size, given as one or several buffers — follows the Hadoop block layout (one block,
// declared length = payload length, chunks of exactly ChunkLen uncompressed bytes except the
// last, in order) and decompresses to the identical bytes.
// vExpandTo: encodings are exactly this long, far longer than their input (whatever room the
// caller left behind the chunk-length field is not enough: the codec has to re-allocate).
var vExpandTo int

func VerifCompressExpanding() {
	vExpandTo = 48
	VerifCompressRoundTrip()
}

func VerifCompressRoundTrip() {
	codec := &vCodec{chunk: uint32(verifParam("CHUNK")), maxEnc: verifParam("ENC"), fixed: vExpandTo}
	c := &compressor{Codec: codec}
	nb := 1 + verifChoose(verifParam("BUFS"))
	var cbs net.Buffers
	var payload []byte
	for i := 0; i < nb; i++ {
		b := verifBytes(verifParam("S"))
		cbs = append(cbs, b)
		payload = append(payload, b...)
	}
	out := c.compressCellblocks(cbs, uint32(len(payload)))
	stream := append([]byte{}, out...)
	verifObserveBytes("stream", stream)

	// H2: layout
	blockLens, chunks, ok := vHadoopRead(stream)
	verifAssert(ok, "compressed stream parses as a Hadoop block stream")
	verifAssert(len(blockLens) == 1 && blockLens[0] == uint32(len(payload)), "one block declaring the payload length")
	verifAssert(len(chunks) == len(codec.pairs), "one length-prefixed chunk per codec call")
	var cat []byte
	for i, p := range codec.pairs {
		verifAssert(vBytesEq(chunks[i], p.enc), "chunks appear in order, each exactly as the codec produced it")
		if i < len(codec.pairs)-1 {
			verifAssert(len(p.src) == int(codec.chunk), "every chunk but the last holds exactly ChunkLen uncompressed bytes")
		} else {
			verifAssert(len(p.src) > 0 && len(p.src) <= int(codec.chunk), "the last chunk holds 1..ChunkLen bytes")
		}
		cat = append(cat, p.src...)
	}
	verifAssert(vBytesEq(cat, payload), "the chunks cover the payload exactly once, in order")

	// H1: the client's own reader
	distinct := true
	for i := range codec.pairs {
		for j := 0; j < i; j++ {
			if vBytesEq(codec.pairs[i].enc, codec.pairs[j].enc) && !vBytesEq(codec.pairs[i].src, codec.pairs[j].src) {
				distinct = false // not a lossless codec: two inputs, one encoding
			}
		}
	}
	verifAssume(distinct)
	back, err := c.decompressCellblocks(stream)
	verifAssert(err == nil, "client decompresses what it compressed")
	verifAssert(vBytesEq(back, payload), "round trip returns the identical bytes")
	verifAssert(codec.unknown == 0, "the decoder is only handed chunks the encoder produced")
	verifReach("roundtrip")
}

// VerifDecompressConforming (H3): any conforming server stream — B blocks, each cut into
// chunks of arbitrary sizes — decompresses to the concatenated payload.
func VerifDecompressConforming() {
	codec := &vCodec{chunk: uint32(verifParam("CHUNK")), maxEnc: verifParam("ENC")} // the server cuts chunks at its own size
	c := &compressor{Codec: codec}
	var stream, payload []byte
	nblocks := verifChoose(verifParam("B") + 1)
	for b := 0; b < nblocks; b++ {
		nch := 1 + verifChoose(verifParam("C"))
		var blockPayload []byte
		var body []byte
		for k := 0; k < nch; k++ {
			p := verifBytes(verifParam("S"))
			verifAssume(len(p) > 0)
			blockPayload = append(blockPayload, p...)
			var e []byte
			e, _ = codec.Encode(p, nil)
			body = vPutU32(body, uint32(len(e)))
			body = append(body, e...)
		}
		stream = vPutU32(stream, uint32(len(blockPayload)))
		stream = append(stream, body...)
		payload = append(payload, blockPayload...)
	}
	distinct := true
	for i := range codec.pairs {
		for j := 0; j < i; j++ {
			if vBytesEq(codec.pairs[i].enc, codec.pairs[j].enc) && !vBytesEq(codec.pairs[i].src, codec.pairs[j].src) {
				distinct = false
			}
		}
	}
	verifAssume(distinct)
	back, err := c.decompressCellblocks(stream)
	verifAssert(err == nil, "client decompresses a conforming stream")
	verifAssert(vBytesEq(back, payload), "conforming stream decompresses to the concatenated payload")
	verifReach("conforming")

	// H4: a stream cut anywhere but at a block boundary is an error, never shorter data
	if len(stream) > 0 {
		cutAt := verifInt(0, len(stream)-1)
		cutOK := false
		pos := 0
		// block boundaries of the stream just built
		s := stream
		for len(s) > 0 {
			if pos == cutAt {
				cutOK = true
			}
			bl := int(vU32(s))
			adv := 4
			got := 0
			for got < bl {
				cl := int(vU32(s[adv:]))
				// the chunk's uncompressed size is known to the codec log
				for _, p := range codec.pairs {
					if vBytesEq(p.enc, s[adv+4:adv+4+cl]) {
						got += len(p.src)
						break
					}
				}
				adv += 4 + cl
			}
			s = s[adv:]
			pos += adv
		}
		if !cutOK {
			_, err := c.decompressCellblocks(stream[:cutAt])
			verifAssert(err != nil, "a stream truncated inside a block yields an error")
			verifReach("truncated")
		}
	}
}

// VerifDecompressArbitrary (C11 d): arbitrary bytes with an adversarial codec: no panic, no
// endless loop, and on success every byte of the output was produced by the codec.
func VerifDecompressArbitrary() {
	codec := &vCodec{chunk: 4, maxEnc: verifParam("ENC")}
	c := &compressor{Codec: codec}
	b := verifBytes(verifParam("N"))
	out, err := c.decompressCellblocks(b)
	verifObserveBool("err", err != nil)
	if err == nil {
		verifReach("accepted")
		verifAssert(len(out) <= codec.unknown*verifParam("ENC"), "output is no longer than what the codec returned")
	}
}

// VerifDecompressTwice: two server streams decompressed one after the other by the same
// compressor (one connection): what was returned for the first stays what it was.
func VerifDecompressTwice() {
	codec := &vCodec{chunk: 8, maxEnc: 2}
	c := &compressor{Codec: codec}
	var outs, wants [][]byte
	for i := 0; i < 2; i++ {
		p := verifBytes(verifParam("S"))
		verifAssume(len(p) > 0)
		e, _ := codec.Encode(p, nil)
		for _, q := range codec.pairs[:len(codec.pairs)-1] {
			verifAssume(!vBytesEq(q.enc, e) || vBytesEq(q.src, p))
		}
		stream := vPutU32(nil, uint32(len(p)))
		stream = vPutU32(stream, uint32(len(e)))
		stream = append(stream, e...)
		out, err := c.decompressCellblocks(stream)
		verifAssert(err == nil, "a conforming stream decompresses")
		outs = append(outs, out)
		wants = append(wants, append([]byte{}, p...))
	}
	for i := range outs {
		verifAssert(vBytesEq(outs[i], wants[i]), "data returned for an earlier stream is not changed by a later one")
	}
	verifReach("twice")
}
