package region

// C16 — region names are totally ordered by (table, start key, id).
// Real code exercised: Compare, findCommaFromEnd.

// vSplit splits a region name into table, key and id at the first and last comma.
func vSplit(n []byte) (t, k, id []byte, ok bool) {
	fc := -1
	for i := 0; i < len(n); i++ {
		if n[i] == ',' {
			fc = i
			break
		}
	}
	if fc < 0 {
		return nil, nil, nil, false
	}
	lc := -1
	for i := len(n) - 1; i > fc; i-- {
		if n[i] == ',' {
			lc = i
			break
		}
	}
	if lc < 0 {
		return nil, nil, nil, false
	}
	return n[:fc], n[fc+1 : lc], n[lc+1:], true
}

// vCmp is plain lexicographic comparison of byte strings: -1, 0, 1.
func vCmp(a, b []byte) int {
	for i := 0; i < len(a); i++ {
		if i >= len(b) {
			return 1
		}
		if a[i] != b[i] {
			if a[i] < b[i] {
				return -1
			}
			return 1
		}
	}
	if len(a) < len(b) {
		return -1
	}
	return 0
}

func vSign(x int) int {
	if x < 0 {
		return -1
	}
	if x > 0 {
		return 1
	}
	return 0
}

// vName returns an arbitrary well-formed region name of at most L bytes together with its
// three components. Well-formed: table and id non-empty, no comma in table or id.
func vName(L int) (n, t, k, id []byte) {
	n = verifBytes(L)
	t, k, id, ok := vSplit(n)
	verifAssume(ok)
	verifAssume(len(t) > 0)
	verifAssume(len(id) > 0)
	for i := 0; i < len(id); i++ {
		verifAssume(id[i] != ',')
	}
	return n, t, k, id
}

func vOracle(ta, ka, ia, tb, kb, ib []byte) int {
	want := vCmp(ta, tb)
	if want == 0 {
		want = vCmp(ka, kb)
		if want == 0 {
			want = vCmp(ia, ib)
		}
	}
	return want
}

// VerifCompareOracle: sign(Compare(a,b)) equals the component-wise order, for all pairs.
func VerifCompareOracle() {
	L := verifParam("L")
	a, ta, ka, ia := vName(L)
	b, tb, kb, ib := vName(L)
	want := vOracle(ta, ka, ia, tb, kb, ib)
	got := vSign(Compare(a, b))
	verifObserveBytes("a", a)
	verifObserveBytes("b", b)
	verifObserveInt("got", got)
	verifReach("compared")
	verifAssert(got == want, "Compare agrees with (table,key,id) order")
}

// vLongName: "t,<key>,<id>" with a start key of exactly kl arbitrary bytes and a one-digit id.
func vLongName(kl int) (n, k, id []byte) {
	k = verifBytesN(kl)
	id = []byte{byte('0' + verifInt(1, 2))}
	n = append([]byte("t,"), k...)
	n = append(n, ',')
	n = append(n, id...)
	return n, k, id
}

// VerifCompareLongKeys: the oracle and antisymmetry for start keys of KL-1 and KL bytes (long
// enough for word-at-a-time or vectorised comparison paths), fixed table, one-digit ids.
func VerifCompareLongKeys() {
	KL := verifParam("KL")
	a, ka, ia := vLongName(KL - verifChoose(2))
	b, kb, ib := vLongName(KL - verifChoose(2))
	t := []byte("t")
	want := vOracle(t, ka, ia, t, kb, ib)
	got := vSign(Compare(a, b))
	verifObserveBytes("a", a)
	verifObserveBytes("b", b)
	verifObserveInt("got", got)
	verifReach("compared-long")
	verifAssert(got == want, "Compare agrees with (table,key,id) order")
	verifAssert(vSign(Compare(b, a)) == -got, "Compare is antisymmetric")
}

// VerifCompareAntisym: the real function is antisymmetric and reflexive on its own.
func VerifCompareAntisym() {
	L := verifParam("L")
	a, _, _, _ := vName(L)
	b, _, _, _ := vName(L)
	x, y := vSign(Compare(a, b)), vSign(Compare(b, a))
	verifObserveInt("x", x)
	verifObserveInt("y", y)
	verifAssert(x == -y, "Compare is antisymmetric")
	if x == 0 {
		verifAssert(vCmp(a, b) == 0, "Compare returns 0 only for identical names")
	}
}

// VerifCompareTrans: transitivity of the real function on triples.
func VerifCompareTrans() {
	L := verifParam("L")
	a, _, _, _ := vName(L)
	b, _, _, _ := vName(L)
	c, _, _, _ := vName(L)
	if Compare(a, b) < 0 && Compare(b, c) < 0 {
		verifReach("chain")
		verifAssert(Compare(a, c) < 0, "Compare is transitive")
	}
}

// VerifCompareFirstRegion: a table's first region (empty start key) sorts before all its other
// regions and after every region of a smaller table name, also when one table name is a
// prefix of the other; and the lookup search key "table,key,:" sorts after every region of
// the same table and start key whose id starts with a digit.
func VerifCompareFirstRegion() {
	L := verifParam("L")
	a, ta, ka, ia := vName(L)
	b, tb, kb, _ := vName(L)
	if len(ka) == 0 && vCmp(ta, tb) == 0 && len(kb) > 0 {
		verifReach("first-vs-later")
		verifAssert(Compare(a, b) < 0, "first region sorts before later regions of its table")
	}
	if len(ka) == 0 && vCmp(tb, ta) < 0 {
		verifReach("first-vs-smaller-table")
		verifAssert(Compare(b, a) < 0, "regions of a smaller table sort before the first region")
	}
	// search key: id == ":" ; region id begins with a digit
	if len(ia) == 1 && ia[0] == ':' && vCmp(ta, tb) == 0 && vCmp(ka, kb) == 0 {
		_, _, ib, _ := vSplit(b)
		if ib[0] >= '0' && ib[0] <= '9' {
			verifReach("search-key")
			verifAssert(Compare(a, b) > 0, "search key sorts after the region with the same start key")
		}
	}
}

// VerifCompareTestVectors: the repository's own TestCompare pairs (a > b), run concretely
// through the engine and — in the native validation of this job — through the compiled code;
// both must produce the same observations. This is the translator's conformance check on the
// inputs the maintainers chose, and it ties the oracle to them as well.
func VerifCompareTestVectors() {
	pairs := [][2]string{
		{"table,,1234567890", ".META.,,1234567890"},
		{"tabl2,,1234567890", "tabl1,,1234567890"},
		{"table,,1234567890", "tabl,,1234567890"},
		{"table,foo,1234567890", "table,,1234567890"},
		{"table,foo,1234567890", "table,bar,1234567890"},
		{"table,fool,1234567890", "table,foo,1234567890"},
		{"table,a,,c,1234567890", "table,a,,b,1234567890"},
		{"table,foo,1234567891", "table,foo,1234567890"},
		{"table,foo,1234567890", "table,foo,123456789"},
		{"table,,1234567891", "table,,1234567890"},
		{"table,foo,:", "table,foo,9999999999"},
		{"table,8,\001,:", "table,8,1339667458224"},
	}
	for _, p := range pairs {
		a, b := []byte(p[0]), []byte(p[1])
		got := Compare(a, b)
		verifObserveInt("cmp", got)
		verifAssert(got > 0 && Compare(b, a) < 0 && Compare(a, a) == 0, "the repository's test vectors hold")
		ta, ka, ia, _ := vSplit(a)
		tb, kb, ib, _ := vSplit(b)
		verifAssert(vOracle(ta, ka, ia, tb, kb, ib) == 1, "the oracle agrees with the repository's test vectors")
	}
	verifReach("vectors")
}
