package region

import (
	"context"
	"errors"
	"io"
	"log/slog"
	"net"
	"time"

	"github.com/tsuna/gohbase/hrpc"
	"github.com/tsuna/gohbase/pb"
	"google.golang.org/protobuf/proto"
)

// ---- shared harness fakes for the region package ----

var vErrConn = errors.New("verif: connection fault")

// vConn is a net.Conn whose k-th operation fails (k chosen by the harness); it records what
// was written and the state of the read deadline.
type vConn struct {
	net.Conn
	ops        int    // operations performed so far
	failAt     int    // the operation with this ordinal (1-based) fails; 0 = never
	dead       bool   // after a failure or Close every operation fails
	closed     int    // number of Close calls
	armed      bool   // last SetReadDeadline argument was non-zero
	wArmed     bool   // a write deadline is set
	deadlines  int    // number of SetReadDeadline calls
	wrote      []byte // concatenation of all successful writes
	writes     [][]byte
	onWrite    func(b []byte) // hook: called after a successful write (may block / hand over)
	partial    int            // a failing write first delivers this many bytes
	in         []byte         // bytes to be read
	readStall  chan struct{}  // if non-nil, Read blocks on it when `in` is empty (until closed)
	writeStall chan struct{}  // if non-nil, Write blocks on it (until the connection is closed)
	yield      bool           // every connection call is a scheduling point
}

func (v *vConn) op() error {
	verifJitter()
	if v.yield {
		verifYield()
	}
	v.ops++
	if v.dead {
		return vErrConn
	}
	if v.failAt != 0 && v.ops == v.failAt {
		v.dead = true
		return vErrConn
	}
	return nil
}

func (v *vConn) Write(b []byte) (int, error) {
	if v.writeStall != nil {
		<-v.writeStall // the peer has stopped reading: blocked until the connection is closed
	}
	if err := v.op(); err != nil {
		n := v.partial
		if n > len(b) {
			n = len(b)
		}
		v.wrote = append(v.wrote, b[:n]...)
		return n, err
	}
	v.wrote = append(v.wrote, b...)
	v.writes = append(v.writes, append([]byte{}, b...))
	if v.onWrite != nil {
		v.onWrite(b)
	}
	return len(b), nil
}

func (v *vConn) Read(p []byte) (int, error) {
	if len(v.in) == 0 && v.readStall != nil {
		<-v.readStall
	}
	if err := v.op(); err != nil {
		return 0, err
	}
	if len(v.in) == 0 {
		return 0, io.EOF
	}
	n := copy(p, v.in)
	v.in = v.in[n:]
	return n, nil
}

func (v *vConn) Close() error {
	v.closed++
	v.dead = true
	if v.readStall != nil {
		select {
		case <-v.readStall:
		default:
			close(v.readStall)
		}
	}
	if v.writeStall != nil {
		select {
		case <-v.writeStall:
		default:
			close(v.writeStall)
		}
	}
	return nil
}

func (v *vConn) SetReadDeadline(t time.Time) error {
	if err := v.op(); err != nil {
		return err
	}
	v.deadlines++
	v.armed = !t.IsZero()
	return nil
}

func (v *vConn) SetWriteDeadline(t time.Time) error {
	if err := v.op(); err != nil {
		return err
	}
	v.wArmed = !t.IsZero()
	return nil
}

// SetDeadline sets both deadlines, as net.Conn specifies.
func (v *vConn) SetDeadline(t time.Time) error {
	if err := v.op(); err != nil {
		return err
	}
	v.deadlines++
	v.armed, v.wArmed = !t.IsZero(), !t.IsZero()
	return nil
}

// vReader is an io.Reader over a byte slice.
type vReader struct{ b []byte }

func (r *vReader) Read(p []byte) (int, error) {
	if len(r.b) == 0 {
		return 0, io.EOF
	}
	n := copy(p, r.b)
	r.b = r.b[n:]
	return n, nil
}

// vLogger: a logger that discards (natively); logging is a no-op in the engine.
func vLogger() *slog.Logger {
	return slog.New(slog.NewTextHandler(io.Discard, nil))
}

func vNewClient(conn net.Conn, queueSize int) *client {
	return &client{
		logger:       vLogger(),
		addr:         "rs:1",
		ctype:        RegionClient,
		rpcQueueSize: queueSize,
		readTimeout:  time.Second,
		rpcs:         make(chan []hrpc.Call),
		done:         make(chan struct{}),
		sent:         make(map[uint32]hrpc.Call),
		conn:         conn,
	}
}

func vReg(name string) hrpc.RegionInfo {
	return NewInfo(1, nil, []byte("t"), []byte(name), nil, nil)
}

func vGet(ctx context.Context, key string, reg hrpc.RegionInfo) *hrpc.Get {
	g, err := hrpc.NewGet(ctx, []byte("t"), []byte(key))
	if err != nil {
		panic(err)
	}
	g.SetRegion(reg)
	return g
}

func vPut(ctx context.Context, key string, reg hrpc.RegionInfo) *hrpc.Mutate {
	p, err := hrpc.NewPut(ctx, []byte("t"), []byte(key), map[string]map[string][]byte{"f": {"q": []byte("v")}})
	if err != nil {
		panic(err)
	}
	p.SetRegion(reg)
	return p
}

func vScan(ctx context.Context, reg hrpc.RegionInfo) *hrpc.Scan {
	s, err := hrpc.NewScan(ctx, []byte("t"))
	if err != nil {
		panic(err)
	}
	s.SetRegion(reg)
	return s
}

// ---- protobuf decoding seam ----
//
// In the engine proto.Unmarshal is replaced by vUnmarshal (job stub): the message the harness
// built is handed over as "what these bytes decode to"; natively the harness marshals the
// same message with the real proto.Marshal and the real proto.Unmarshal decodes it.

var vPending []proto.Message
var vUnmarshalFails []bool

func vExpectUnmarshal(m proto.Message, fails bool) {
	vPending = append(vPending, m)
	vUnmarshalFails = append(vUnmarshalFails, fails)
}

func vUnmarshal(b []byte, m proto.Message) error {
	if len(vPending) == 0 {
		verifFail("unexpected proto.Unmarshal call")
	}
	src, fails := vPending[0], vUnmarshalFails[0]
	vPending, vUnmarshalFails = vPending[1:], vUnmarshalFails[1:]
	if fails {
		return errors.New("verif: undecodable protobuf")
	}
	switch d := m.(type) {
	case *pb.ResponseHeader:
		s := src.(*pb.ResponseHeader)
		d.CallId, d.Exception, d.CellBlockMeta = s.CallId, s.Exception, s.CellBlockMeta
	case *pb.GetResponse:
		d.Result = src.(*pb.GetResponse).Result
	case *pb.MutateResponse:
		s := src.(*pb.MutateResponse)
		d.Result, d.Processed = s.Result, s.Processed
	case *pb.ScanResponse:
		s := src.(*pb.ScanResponse)
		d.CellsPerResult, d.PartialFlagPerResult, d.ScannerId = s.CellsPerResult, s.PartialFlagPerResult, s.ScannerId
		d.MoreResults, d.MoreResultsInRegion, d.Results = s.MoreResults, s.MoreResultsInRegion, s.Results
	case *pb.MultiResponse:
		d.RegionActionResult = src.(*pb.MultiResponse).RegionActionResult
	case *pb.RegionInfo:
		s := src.(*pb.RegionInfo)
		d.RegionId, d.TableName, d.StartKey, d.EndKey, d.Offline, d.Split = s.RegionId, s.TableName, s.StartKey, s.EndKey, s.Offline, s.Split
	default:
		verifFail("vUnmarshal: unexpected message type")
	}
	return nil
}

// vWire returns the bytes standing for message m on the wire: a hand-written proto2 encoding
// of the few response messages the harnesses use (so that frame sizes are identical in the
// engine and in the native replay), or garbage if the harness wants the decode to fail. In
// the engine proto.Unmarshal is stubbed by vUnmarshal, which hands over m itself; natively
// the real proto.Unmarshal decodes these bytes — which also validates this encoder.
func vWire(m proto.Message, fails bool) []byte {
	vExpectUnmarshal(m, fails)
	if fails {
		return []byte{0xff, 0xff, 0xff} // a truncated varint where a field tag is expected
	}
	return vEncode(m)
}

func vVarint(dst []byte, n uint64) []byte {
	for n >= 0x80 {
		dst = append(dst, byte(n)|0x80)
		n >>= 7
	}
	return append(dst, byte(n))
}

func vTag(dst []byte, field, wire int) []byte { return vVarint(dst, uint64(field<<3|wire)) }

func vFieldVarint(dst []byte, field int, v uint64) []byte {
	return vVarint(vTag(dst, field, 0), v)
}

func vFieldBytes(dst []byte, field int, b []byte) []byte {
	dst = vVarint(vTag(dst, field, 2), uint64(len(b)))
	return append(dst, b...)
}

func vFieldBool(dst []byte, field int, b bool) []byte {
	if b {
		return vFieldVarint(dst, field, 1)
	}
	return vFieldVarint(dst, field, 0)
}

func vEncNameBytes(p *pb.NameBytesPair) []byte {
	var b []byte
	if p.Name != nil {
		b = vFieldBytes(b, 1, []byte(*p.Name))
	}
	if p.Value != nil {
		b = vFieldBytes(b, 2, p.Value)
	}
	return b
}

func vEncResult(r *pb.Result) []byte {
	var b []byte
	if r.AssociatedCellCount != nil {
		b = vFieldVarint(b, 2, uint64(int64(*r.AssociatedCellCount)))
	}
	if r.Stale != nil {
		b = vFieldBool(b, 4, *r.Stale)
	}
	if r.Partial != nil {
		b = vFieldBool(b, 5, *r.Partial)
	}
	return b
}

func vEncode(m proto.Message) []byte {
	var b []byte
	switch x := m.(type) {
	case *pb.ResponseHeader:
		if x.CallId != nil {
			b = vFieldVarint(b, 1, uint64(*x.CallId))
		}
		if e := x.Exception; e != nil {
			var eb []byte
			if e.ExceptionClassName != nil {
				eb = vFieldBytes(eb, 1, []byte(*e.ExceptionClassName))
			}
			if e.StackTrace != nil {
				eb = vFieldBytes(eb, 2, []byte(*e.StackTrace))
			}
			b = vFieldBytes(b, 2, eb)
		}
		if c := x.CellBlockMeta; c != nil {
			var cb []byte
			if c.Length != nil {
				cb = vFieldVarint(cb, 1, uint64(*c.Length))
			}
			b = vFieldBytes(b, 3, cb)
		}
	case *pb.GetResponse:
		if x.Result != nil {
			b = vFieldBytes(b, 1, vEncResult(x.Result))
		}
	case *pb.MutateResponse:
		if x.Result != nil {
			b = vFieldBytes(b, 1, vEncResult(x.Result))
		}
		if x.Processed != nil {
			b = vFieldBool(b, 2, *x.Processed)
		}
	case *pb.ScanResponse:
		for _, n := range x.CellsPerResult {
			b = vFieldVarint(b, 1, uint64(n))
		}
		if x.ScannerId != nil {
			b = vFieldVarint(b, 2, *x.ScannerId)
		}
		if x.MoreResults != nil {
			b = vFieldBool(b, 3, *x.MoreResults)
		}
		for _, r := range x.Results {
			b = vFieldBytes(b, 5, vEncResult(r))
		}
		for _, f := range x.PartialFlagPerResult {
			b = vFieldBool(b, 7, f)
		}
		if x.MoreResultsInRegion != nil {
			b = vFieldBool(b, 8, *x.MoreResultsInRegion)
		}
	case *pb.MultiResponse:
		for _, rar := range x.RegionActionResult {
			var rb []byte
			for _, roe := range rar.ResultOrException {
				var ob []byte
				if roe.Index != nil {
					ob = vFieldVarint(ob, 1, uint64(*roe.Index))
				}
				if roe.Result != nil {
					ob = vFieldBytes(ob, 2, vEncResult(roe.Result))
				}
				if roe.Exception != nil {
					ob = vFieldBytes(ob, 3, vEncNameBytes(roe.Exception))
				}
				rb = vFieldBytes(rb, 1, ob)
			}
			if rar.Exception != nil {
				rb = vFieldBytes(rb, 2, vEncNameBytes(rar.Exception))
			}
			b = vFieldBytes(b, 1, rb)
		}
	case *pb.RegionInfo:
		if x.RegionId != nil {
			b = vFieldVarint(b, 1, *x.RegionId)
		}
		if t := x.TableName; t != nil {
			var tb []byte
			if t.Namespace != nil {
				tb = vFieldBytes(tb, 1, t.Namespace)
			}
			if t.Qualifier != nil {
				tb = vFieldBytes(tb, 2, t.Qualifier)
			}
			b = vFieldBytes(b, 2, tb)
		}
		if x.StartKey != nil {
			b = vFieldBytes(b, 3, x.StartKey)
		}
		if x.EndKey != nil {
			b = vFieldBytes(b, 4, x.EndKey)
		}
		if x.Offline != nil {
			b = vFieldBool(b, 5, *x.Offline)
		}
		if x.Split != nil {
			b = vFieldBool(b, 6, *x.Split)
		}
	default:
		verifFail("vEncode: unexpected message type")
	}
	return b
}

func vAppendDelimited(dst, b []byte) []byte {
	return append(vVarint(dst, uint64(len(b))), b...)
}

func vFrame(body []byte, declared uint32) []byte {
	f := []byte{byte(declared >> 24), byte(declared >> 16), byte(declared >> 8), byte(declared)}
	return append(f, body...)
}

// vResults counts results waiting in a call's result channel.
func vResults(c hrpc.Call) int { return len(c.ResultChan()) }
