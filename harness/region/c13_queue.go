package region

import (
	"context"

	"github.com/tsuna/gohbase/hrpc"
)

// C13 (region level) — a caller parked on the busy send queue of the real region client
// leaves when its context ends. Real code: QueueRPC, QueueBatch.
func VerifCancelSendQueue() {
	c := vNewClient(&vConn{}, 2) // batching enabled; nobody drains c.rpcs: the writer is busy
	reg := vReg("t,,1")
	ctx, cancel := context.WithCancel(context.Background())
	p := vPut(ctx, "a", reg)
	returned := false
	viaBatch := verifBool()
	go func() {
		if viaBatch {
			c.QueueBatch(ctx, []hrpc.Call{p})
		} else {
			c.QueueRPC(p)
		}
		returned = true
	}()
	verifQuiesce()
	verifAssert(!returned, "the caller is parked on the send queue")
	cancel()
	verifQuiesce()
	verifAssert(returned, "a caller parked on a busy send queue leaves when its context ends")
	verifAssert(vResults(p) == 0, "nothing is delivered for a call that was never sent")
	verifReach("cancelled")
}
