package region

import (
	"context"

	"github.com/tsuna/gohbase/hrpc"
	"github.com/tsuna/gohbase/pb"
	"google.golang.org/protobuf/proto"
)

// C02 — each caller receives the response to its own request.
// Real code: trySend, send, registerRPC/unregisterRPC, receive, returnResult,
// (*multi).add/toProto/checkResponse/DeserializeCellBlocks/returnResults/get,
// Get/Mutate.DeserializeCellBlocks, deserializeCellBlocks, cellFromCellBlock.

var vKeys = []string{"a", "b", "c", "d", "e", "f"}

// vTagCell: a minimal KeyValue whose row is the single byte tag.
func vTagCell(tag byte) []byte {
	// kvLen=21: keyLen(4)=13 valueLen(4)=0 rowLen(2)=1 row famLen(1)=0 ts(8) type(1)
	b := []byte{0, 0, 0, 21, 0, 0, 0, 13, 0, 0, 0, 0, 0, 1, tag, 0}
	b = append(b, 0, 0, 0, 0, 0, 0, 0, 1, 4)
	return b
}

func vResultCells(m proto.Message) []*pb.Cell {
	switch r := m.(type) {
	case *pb.GetResponse:
		return r.GetResult().GetCell()
	case *pb.MutateResponse:
		return r.GetResult().GetCell()
	}
	verifFail("unexpected response type delivered")
	return nil
}

// VerifCallIDCorrelation: N single calls are sent; the server answers them in an arbitrary
// order, each response carrying a number of cells tagged with the request it answers: every
// caller gets exactly the response produced for its request.
func VerifCallIDCorrelation() {
	conn := &vConn{}
	c := vNewClient(conn, 1)
	reg := vReg("t,,1")
	n := verifParam("CALLS")
	var calls []hrpc.Call
	for i := 0; i < n; i++ {
		var cl hrpc.Call
		if verifBool() {
			cl = vGet(context.Background(), vKeys[i], reg)
		} else {
			cl = vPut(context.Background(), vKeys[i], reg)
		}
		calls = append(calls, cl)
		verifAssert(c.trySend(cl) == nil, "send")
	}
	// ids are unique
	ids := map[hrpc.Call]uint32{}
	for id, cl := range c.sent {
		ids[cl] = id
	}
	verifAssert(len(ids) == n, "every outstanding call is registered under its own id")
	answered := make([]bool, n)
	count := make([]int, n)
	for k := 0; k < n; k++ {
		i := verifInt(0, n-1) // the server picks any unanswered request
		verifAssume(!answered[i])
		answered[i] = true
		count[i] = verifInt(0, verifParam("CELLS"))
		cells := []byte{}
		for j := 0; j < count[i]; j++ {
			cells = append(cells, vTagCell(byte('A'+i))...)
		}
		h := &pb.ResponseHeader{CallId: proto.Uint32(ids[calls[i]])}
		if len(cells) > 0 {
			h.CellBlockMeta = &pb.CellBlockMeta{Length: proto.Uint32(uint32(len(cells)))}
		}
		res := &pb.Result{AssociatedCellCount: proto.Int32(int32(count[i]))}
		var resp proto.Message = &pb.GetResponse{Result: res}
		if _, isGet := calls[i].(*hrpc.Get); !isGet {
			resp = &pb.MutateResponse{Result: res}
		}
		body := vAppendDelimited(nil, vWire(h, false))
		body = vAppendDelimited(body, vWire(resp, false))
		body = append(body, cells...)
		err := c.receive(&vReader{b: vFrame(body, uint32(len(body)))})
		vPending, vUnmarshalFails = nil, nil
		verifAssert(err == nil, "a conforming response is processed")
	}
	for i, cl := range calls {
		verifAssert(vResults(cl) == 1, "every caller gets exactly one result")
		r := <-cl.ResultChan()
		verifAssert(r.Error == nil && r.Msg != nil, "the result is the server's response")
		cs := vResultCells(r.Msg)
		verifAssert(len(cs) == count[i], "the caller gets as many cells as the server sent for its request")
		for _, cell := range cs {
			verifAssert(len(cell.Row) == 1 && cell.Row[0] == byte('A'+i), "the caller gets the cells that belong to its request")
		}
	}
	verifReach("correlated")
}

// VerifMultiCorrelation: calls grouped into one multi-request over two regions; the server's
// MultiResponse lists the region results in request order, the results inside a region in an
// arbitrary order, any of them as per-action exceptions, a whole region possibly as a region
// exception; the trailing cellblock carries the cells of the results in response order.
func VerifMultiCorrelation() {
	conn := &vConn{}
	c := vNewClient(conn, 4)
	// regA2: a second RegionInfo object for region A (the client builds a fresh one whenever it
	// looks a region up again; calls queued before and after carry different objects)
	regA, regA2, regB := vReg("t,,1"), vReg("t,,1"), vReg("t,m,2")
	n := verifParam("CALLS")
	m := newMulti(4)
	var calls []hrpc.Call
	var cancels []context.CancelFunc
	for i := 0; i < n; i++ {
		reg := []hrpc.RegionInfo{regA, regB, regA2}[verifInt(0, 2)]
		var cl hrpc.Call
		cctx, cancel := context.WithCancel(context.Background())
		cancels = append(cancels, cancel)
		if verifBool() {
			cl = vGet(cctx, vKeys[i], reg)
		} else {
			cl = vPut(cctx, vKeys[i], reg)
		}
		calls = append(calls, cl)
	}
	m.add(calls)
	dropped := -1
	if verifBool() {
		// one caller gives up before the batch is flushed: its call is dropped from the request
		dropped = verifInt(0, n-1)
		cancels[dropped]()
	}
	verifAssert(c.trySend(m) == nil, "send")
	var id uint32
	for k := range c.sent {
		id = k
	}
	// the response: the server sees the request only - one result per region action, in request
	// order, for the actions listed there
	var req *pb.MultiRequest
	if dropped < 0 {
		req = m.ToProto().(*pb.MultiRequest) // (serialising again is only defined while no call has been dropped)
	} else {
		// the same grouping, reconstructed: one region action per RegionInfo object, in m.regions order
		req = &pb.MultiRequest{}
		for _, reg := range m.regions {
			ra := &pb.RegionAction{Region: &pb.RegionSpecifier{Value: reg.Name()}}
			for i, cl := range calls {
				if cl.Region() == reg && i != dropped {
					ra.Action = append(ra.Action, &pb.Action{Index: proto.Uint32(uint32(i + 1))})
				}
			}
			req.RegionAction = append(req.RegionAction, ra)
		}
	}
	late := -1
	if verifBool() {
		// another caller gives up after the request was written, before the response is decoded:
		// nothing is claimed for it, but every other caller still gets its own result and cells
		late = verifInt(0, n-1)
		verifAssume(late != dropped)
		cancels[late]()
		verifReach("gave-up-after-send")
	}
	mr := &pb.MultiResponse{}
	var cells []byte
	wantErr := make([]bool, n)
	wantClass := make([]int, n) // 0: any error; 1: not-serving (region moved); 2: retry later (region busy)
	count := make([]int, n)
	listed := 0
	for ri, ra := range req.RegionAction {
		rar := &pb.RegionActionResult{}
		var members []int
		for _, a := range ra.Action {
			i := int(a.GetIndex()) - 1
			verifAssert(i >= 0 && i < n && i != dropped, "the request lists calls of the batch that were not dropped")
			verifAssert(string(ra.Region.Value) == string(calls[i].Region().Name()), "every action is listed under the name of its call's region")
			members = append(members, i)
			listed++
		}
		if verifBool() {
			// regions fail for reasons of their own: each call gets its own region's exception
			class := "org.apache.hadoop.hbase.NotServingRegionException"
			if ri%2 == 1 {
				class = "org.apache.hadoop.hbase.RegionTooBusyException"
			}
			rar.Exception = &pb.NameBytesPair{Name: proto.String(class), Value: []byte("s")}
			for _, i := range members {
				wantErr[i] = true
				wantClass[i] = 1 + ri%2
			}
		} else {
			done := make([]bool, len(members))
			for range members {
				k := verifInt(0, len(members)-1) // results inside a region come in any order
				verifAssume(!done[k])
				done[k] = true
				i := members[k]
				roe := &pb.ResultOrException{Index: proto.Uint32(uint32(i + 1))}
				if verifBool() {
					roe.Exception = &pb.NameBytesPair{Name: proto.String("x.ActionFailed"), Value: []byte("s")}
					wantErr[i] = true
				} else {
					count[i] = verifInt(0, verifParam("CELLS"))
					roe.Result = &pb.Result{AssociatedCellCount: proto.Int32(int32(count[i]))}
					for j := 0; j < count[i]; j++ {
						cells = append(cells, vTagCell(byte('A'+i))...)
					}
				}
				rar.ResultOrException = append(rar.ResultOrException, roe)
			}
		}
		mr.RegionActionResult = append(mr.RegionActionResult, rar)
	}
	want := n
	if dropped >= 0 {
		want--
	}
	verifAssert(listed == want, "every call that was not dropped is in the request, once")
	h := &pb.ResponseHeader{CallId: proto.Uint32(id)}
	if len(cells) > 0 {
		h.CellBlockMeta = &pb.CellBlockMeta{Length: proto.Uint32(uint32(len(cells)))}
	}
	body := vAppendDelimited(nil, vWire(h, false))
	body = vAppendDelimited(body, vWire(mr, false))
	body = append(body, cells...)
	err := c.receive(&vReader{b: vFrame(body, uint32(len(body)))})
	vPending, vUnmarshalFails = nil, nil
	verifAssert(err == nil, "a conforming multi-response is processed")
	for i, cl := range calls {
		if i == dropped {
			verifAssert(vResults(cl) == 0, "a call dropped from the request gets no result")
			continue
		}
		if i == late {
			verifAssert(vResults(cl) <= 1, "a caller that gave up gets at most one result")
			continue
		}
		verifAssert(vResults(cl) == 1, "every caller of the multi gets exactly one result")
		r := <-cl.ResultChan()
		if wantErr[i] {
			verifAssert(r.Error != nil && r.Msg == nil, "a call whose action or region failed gets that error")
			_, nsre := r.Error.(NotServingRegionError)
			_, busy := r.Error.(RetryableError)
			verifAssert(wantClass[i] != 1 || nsre, "a call of a region that is not serving gets the not-serving error of its own region")
			verifAssert(wantClass[i] != 2 || busy, "a call of a busy region gets the retry-later error of its own region")
			verifAssert(wantClass[i] != 0 || (!nsre && !busy), "a call whose action failed gets the action's own exception")
			continue
		}
		verifAssert(r.Error == nil && r.Msg != nil, "a call whose action succeeded gets its response")
		_, isGet := cl.(*hrpc.Get)
		_, gotGet := r.Msg.(*pb.GetResponse)
		verifAssert(isGet == gotGet, "the response has the type of the request")
		cs := vResultCells(r.Msg)
		verifAssert(len(cs) == count[i], "the caller gets as many cells as the server sent for its action")
		for _, cell := range cs {
			verifAssert(len(cell.Row) == 1 && cell.Row[0] == byte('A'+i), "the caller gets the cells that belong to its action")
		}
	}
	verifReach("correlated")
}

// VerifConcurrentRegister: two goroutines register calls concurrently: they obtain distinct
// call ids and both calls are registered.
func VerifConcurrentRegister() {
	c := vNewClient(&vConn{}, 1)
	reg := vReg("t,,1")
	g1, g2 := vGet(context.Background(), "a", reg), vGet(context.Background(), "b", reg)
	var id1, id2 uint32
	done := make(chan struct{})
	go func() {
		id1 = c.registerRPC(g1)
		close(done)
	}()
	id2 = c.registerRPC(g2)
	<-done
	verifAssert(id1 != id2, "concurrent senders obtain distinct call ids")
	verifAssert(c.sent[id1] == hrpc.Call(g1) && c.sent[id2] == hrpc.Call(g2), "each id maps to its own call")
	verifReach("registered")
}

// VerifCompressedCells: with cellblock compression configured, the cells handed to a caller
// stay that caller's: a later exchange on the same connection (which may reuse pooled buffers)
// does not change what an earlier caller holds.
func VerifCompressedCells() {
	conn := &vConn{}
	c := vNewClient(conn, 1)
	codec := &vCodec{chunk: 64, maxEnc: 3}
	c.compressor = &compressor{Codec: codec}
	reg := vReg("t,,1")
	var results []hrpc.RPCResult
	for i := 0; i < 2; i++ {
		g := vGet(context.Background(), vKeys[i], reg)
		verifAssert(c.trySend(g) == nil, "send")
		// the server's compressed cellblock: one block, one chunk
		plain := vTagCell(byte('A' + i))
		enc, _ := codec.Encode(plain, nil)
		for _, p := range codec.pairs[:len(codec.pairs)-1] {
			verifAssume(!vBytesEq(p.enc, enc)) // a lossless codec: different inputs, different encodings
		}
		stream := vPutU32(nil, uint32(len(plain)))
		stream = vPutU32(stream, uint32(len(enc)))
		stream = append(stream, enc...)
		h := &pb.ResponseHeader{CallId: proto.Uint32(uint32(i + 1)),
			CellBlockMeta: &pb.CellBlockMeta{Length: proto.Uint32(uint32(len(stream)))}}
		body := vAppendDelimited(nil, vWire(h, false))
		body = vAppendDelimited(body, vWire(&pb.GetResponse{Result: &pb.Result{AssociatedCellCount: proto.Int32(1)}}, false))
		body = append(body, stream...)
		err := c.receive(&vReader{b: vFrame(body, uint32(len(body)))})
		vPending, vUnmarshalFails = nil, nil
		verifAssert(err == nil, "a conforming compressed response is processed")
		verifAssert(vResults(g) == 1, "the caller gets its result")
		results = append(results, <-g.ResultChan())
	}
	for i, r := range results {
		verifAssert(r.Error == nil, "no error")
		cs := vResultCells(r.Msg)
		verifAssert(len(cs) == 1 && len(cs[0].Row) == 1 && cs[0].Row[0] == byte('A'+i),
			"a caller still holds the cells of its own response after later exchanges")
	}
	verifReach("held")
}

// VerifMultiNotShared: a multi-request whose response arrives while the connection is being
// closed (resetting the read deadline fails) is completed once; the batches built afterwards —
// possibly on other connections — never share one multi-request object.
func VerifMultiNotShared() {
	conn := &vConn{}
	c := vNewClient(conn, 2)
	reg := vReg("t,,1")
	p := vPut(context.Background(), "a", reg)
	m := newMulti(2)
	m.add([]hrpc.Call{p})
	verifAssert(c.trySend(m) == nil, "send")
	mr := &pb.MultiResponse{RegionActionResult: []*pb.RegionActionResult{{ResultOrException: []*pb.ResultOrException{
		{Index: proto.Uint32(1), Result: &pb.Result{}}}}}}
	body := vAppendDelimited(nil, vWire(&pb.ResponseHeader{CallId: proto.Uint32(1)}, false))
	body = vAppendDelimited(body, vWire(mr, false))
	if verifBool() {
		conn.failAt = conn.ops + 1 // the deadline reset that follows the response fails
	}
	c.receive(&vReader{b: vFrame(body, uint32(len(body)))})
	vPending, vUnmarshalFails = nil, nil
	verifAssert(vResults(p) == 1, "the call of the multi is completed exactly once")
	m1, m2 := newMulti(2), newMulti(2)
	verifAssert(m1 != m2, "two batches never share one multi-request object")
	verifReach("distinct")
}

// VerifMultiReuse: two multi-requests one after the other on one connection - the second may be
// built in the pooled object the first one was returned in. The first is answered with cells in
// the cellblock, the second without any cellblock (rows that do not exist): the second caller
// gets the (empty) answer to its own request, not what the pooled object still remembers.
func VerifMultiReuse() {
	conn := &vConn{}
	c := vNewClient(conn, 2)
	reg := vReg("t,,1")
	for round := 0; round < 2; round++ {
		n := 1
		if verifBool() {
			n = 2
		}
		var calls []hrpc.Call
		for i := 0; i < n; i++ {
			calls = append(calls, vGet(context.Background(), vKeys[2*round+i], reg))
		}
		m := newMulti(2)
		m.add(calls)
		verifAssert(c.trySend(m) == nil, "send")
		id := uint32(round + 1)
		rar := &pb.RegionActionResult{}
		var cells []byte
		for i := 0; i < n; i++ {
			roe := &pb.ResultOrException{Index: proto.Uint32(uint32(i + 1)), Result: &pb.Result{}}
			if round == 0 {
				roe.Result.AssociatedCellCount = proto.Int32(1)
				cells = append(cells, vTagCell(byte('A'+i))...)
			}
			rar.ResultOrException = append(rar.ResultOrException, roe)
		}
		h := &pb.ResponseHeader{CallId: proto.Uint32(id)}
		if len(cells) > 0 {
			h.CellBlockMeta = &pb.CellBlockMeta{Length: proto.Uint32(uint32(len(cells)))}
		}
		body := vAppendDelimited(nil, vWire(h, false))
		body = vAppendDelimited(body, vWire(&pb.MultiResponse{RegionActionResult: []*pb.RegionActionResult{rar}}, false))
		body = append(body, cells...)
		err := c.receive(&vReader{b: vFrame(body, uint32(len(body)))})
		vPending, vUnmarshalFails = nil, nil
		verifAssert(err == nil, "a conforming multi-response is processed")
		for i, cl := range calls {
			verifAssert(vResults(cl) == 1, "every caller gets exactly one result")
			r := <-cl.ResultChan()
			verifAssert(r.Error == nil && r.Msg != nil, "the call succeeded")
			cs := vResultCells(r.Msg)
			if round == 0 {
				verifAssert(len(cs) == 1 && cs[0].Row[0] == byte('A'+i), "the first round's callers get their cells")
			} else {
				verifAssert(len(cs) == 0, "a caller whose row does not exist gets an empty result, not an earlier caller's cells")
			}
		}
	}
	verifReach("reused")
}
