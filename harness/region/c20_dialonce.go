package region

import (
	"context"
	"net"
)

// C20 (region level) — however many goroutines call Dial on a region client concurrently, the
// server is dialled once and every caller sees the same outcome.
// Real code: NewClient, Dial (dialOnce), sendHello, fail.
func VerifDialOnce() {
	conn := &vConn{readStall: make(chan struct{}), yield: true}
	dials := 0
	failDial := verifBool()
	dialer := func(ctx context.Context, network, addr string) (net.Conn, error) {
		verifYield()
		dials++
		if failDial {
			return nil, vErrConn
		}
		return conn, nil
	}
	rc := NewClient("rs:1", RegionClient, 2, 0, "user", 0, nil, dialer, vLogger())
	n := verifParam("CALLERS")
	errs := make([]error, n)
	done := make(chan struct{}, n)
	for i := 0; i < n; i++ {
		i := i
		go func() {
			errs[i] = rc.Dial(context.Background())
			done <- struct{}{}
		}()
	}
	for i := 0; i < n; i++ {
		<-done
	}
	verifAssert(dials == 1, "the regionserver is dialled once")
	for i := 0; i < n; i++ {
		verifAssert((errs[i] != nil) == failDial, "every concurrent caller sees the outcome of the one dial")
	}
	rc.Close()
	verifQuiesce()
	verifAssert(verifGoroutines() == 0, "no goroutine is left after Close")
	verifReach("dialled")
}
