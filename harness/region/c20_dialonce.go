package region

import (
	"context"
	"net"
	"time"
)

// C20 (region level) — however many goroutines call Dial on a region client concurrently, the
// server is dialled once and every caller sees the same outcome.
// Real code: NewClient, Dial (dialOnce), sendHello, fail.
func VerifDialOnce() {
	conn := &vConn{readStall: make(chan struct{}), yield: true}
	dials := 0
	failDial := verifBool()
	dialer := func(ctx context.Context, network, addr string) (net.Conn, error) {
		verifYield()
		dials++
		if failDial {
			return nil, vErrConn
		}
		return conn, nil
	}
	rc := NewClient("rs:1", RegionClient, 2, 0, "user", 0, nil, dialer, vLogger())
	n := verifParam("CALLERS")
	errs := make([]error, n)
	done := make(chan struct{}, n)
	for i := 0; i < n; i++ {
		i := i
		go func() {
			errs[i] = rc.Dial(context.Background())
			done <- struct{}{}
		}()
	}
	for i := 0; i < n; i++ {
		<-done
	}
	verifAssert(dials == 1, "the regionserver is dialled once")
	for i := 0; i < n; i++ {
		verifAssert((errs[i] != nil) == failDial, "every concurrent caller sees the outcome of the one dial")
	}
	rc.Close()
	verifQuiesce()
	verifAssert(verifGoroutines() == 0, "no goroutine is left after Close")
	verifReach("dialled")
}

// VerifDialIdle (C18): a connection dialled with a context that has a deadline and then left
// idle carries no read deadline and no write deadline once Dial has returned - nothing is
// outstanding, so no timer may tear it down.
func VerifDialIdle() {
	conn := &vConn{readStall: make(chan struct{})}
	dialer := func(ctx context.Context, network, addr string) (net.Conn, error) { return conn, nil }
	rc := NewClient("rs:1", RegionClient, 2, 0, "user", 0, nil, dialer, vLogger())
	ctx := context.Background()
	cancel := func() {}
	if verifBool() {
		ctx, cancel = context.WithTimeout(ctx, time.Hour)
		verifReach("dial-deadline")
	}
	err := rc.Dial(ctx)
	cancel()
	verifAssert(err == nil, "the dial succeeds")
	verifQuiesce()
	verifAssert(!conn.armed, "an idle connection has no read deadline armed")
	verifAssert(!conn.wArmed, "the handshake's write deadline does not outlive the handshake")
	verifAssert(conn.closed == 0, "the idle connection is open")
	rc.Close()
	verifQuiesce()
	verifReach("idle-after-dial")
}

// VerifDialLate (C20): the dial context has a deadline and the dialer is slow (it may return its
// connection after the deadline has passed, as a dialer that does not watch the context does).
// Whatever Dial makes of that, a connection the dialer handed out is not left open behind a
// region client that has been closed: otherwise the replacement client's connection is the
// second open connection to that server.
func VerifDialLate() {
	conn := &vConn{readStall: make(chan struct{})}
	handed := false
	dialer := func(ctx context.Context, network, addr string) (net.Conn, error) {
		verifYield()
		if verifNative() {
			time.Sleep(30 * time.Millisecond)
		}
		handed = true
		return conn, nil
	}
	rc := NewClient("rs:1", RegionClient, 2, 0, "user", 0, nil, dialer, vLogger())
	ctx, cancel := context.WithTimeout(context.Background(), 5*time.Millisecond)
	err := rc.Dial(ctx)
	cancel()
	verifObserveBool("dial-failed", err != nil)
	rc.Close()
	verifQuiesce()
	verifAssert(handed, "the dialer has returned")
	verifAssert(conn.closed > 0, "the connection the dialer handed out is closed together with its region client")
	verifAssert(verifGoroutines() == 0, "no goroutine is left after Close")
	verifReach("late-dial")
}
