package region

import (
	"context"
	"time"

	"github.com/tsuna/gohbase/hrpc"
	"github.com/tsuna/gohbase/pb"
	"google.golang.org/protobuf/encoding/protowire"
	"google.golang.org/protobuf/proto"
)

// C05 — bytes written to the server encode exactly the requested operation (frame level).
// Real code: trySend, send, marshalProto, registerRPC, getHeader/returnHeader (sync.Pool),
// sendHello, compressCellblocks, net.Buffers.WriteTo, (*multi).toProto/SerializeCellBlocks,
// (*Mutate).SerializeCellBlocks/toProto/valuesToCellblocks, Get.ToProto, hrpc.GetPriority.
//
// In the engine the protobuf marshaller is a contract stub (vSize / vMarshalAppend, job
// stubs): it appends a fixed number of marker bytes and records a snapshot of the message it
// was given; natively the real marshaller runs and the harness decodes the written bytes with
// the real proto.Unmarshal. Either way vParseFrame yields the header, the request and the
// trailing cellblock bytes of each frame, which the assertions inspect.

type vSnap struct {
	hdr *pb.RequestHeader
	msg proto.Message
}

var vSnaps []vSnap

const vPbSize = 2

func vSize(m proto.Message) int { return vPbSize }

func vMarshalAppend(o proto.MarshalOptions, b []byte, m proto.Message) ([]byte, error) {
	if h, ok := m.(*pb.RequestHeader); ok {
		// the header object is pooled and reset after use: keep a copy of what was marshalled
		cp := &pb.RequestHeader{MethodName: h.MethodName, RequestParam: h.RequestParam, Priority: h.Priority,
			CellBlockMeta: h.CellBlockMeta}
		if h.CallId != nil {
			id := *h.CallId
			cp.CallId = &id
		}
		vSnaps = append(vSnaps, vSnap{hdr: cp})
	} else {
		vSnaps = append(vSnaps, vSnap{msg: m})
	}
	return append(b, 0xAA, 0xBB), nil
}

type vFrameInfo struct {
	hdr   *pb.RequestHeader
	req   proto.Message
	cells []byte
	ok    bool
	rest  []byte
}

// vParseFrame takes one frame off the byte stream.
func vParseFrame(s []byte) vFrameInfo {
	if len(s) < 4 {
		return vFrameInfo{}
	}
	total := int(vU32(s))
	if len(s) < 4+total {
		return vFrameInfo{}
	}
	body := s[4 : 4+total]
	f := vFrameInfo{rest: s[4+total:]}
	hb, n := protowire.ConsumeBytes(body)
	if n < 0 {
		return vFrameInfo{}
	}
	rb, n2 := protowire.ConsumeBytes(body[n:])
	if n2 < 0 {
		return vFrameInfo{}
	}
	f.cells = body[n+n2:]
	if verifNative() {
		f.hdr = &pb.RequestHeader{}
		if proto.Unmarshal(hb, f.hdr) != nil {
			return vFrameInfo{}
		}
		switch f.hdr.GetMethodName() {
		case "Get":
			f.req = &pb.GetRequest{}
		case "Mutate":
			f.req = &pb.MutateRequest{}
		case "Scan":
			f.req = &pb.ScanRequest{}
		case "Multi":
			f.req = &pb.MultiRequest{}
		default:
			return vFrameInfo{}
		}
		if proto.Unmarshal(rb, f.req) != nil {
			return vFrameInfo{}
		}
	} else {
		if len(vSnaps) < 2 || vSnaps[0].hdr == nil || vSnaps[1].msg == nil || len(hb) != vPbSize || len(rb) != vPbSize {
			return vFrameInfo{}
		}
		f.hdr, f.req = vSnaps[0].hdr, vSnaps[1].msg
		vSnaps = vSnaps[2:]
	}
	f.ok = true
	return f
}

// vCountCells walks a cellblock and returns the number of well-formed KeyValues (-1 if not).
func vCountCells(b []byte) int {
	n := 0
	for len(b) > 0 {
		if len(b) < 4 {
			return -1
		}
		l := int(vU32(b))
		if len(b) < 4+l {
			return -1
		}
		b = b[4+l:]
		n++
	}
	return n
}

func vPutVals(ctx context.Context, key string, reg hrpc.RegionInfo, nq int) *hrpc.Mutate {
	vals := map[string]map[string][]byte{"f": {}}
	for i := 0; i < nq; i++ {
		vals["f"][vKeys[i]] = []byte("v")
	}
	p, err := hrpc.NewPut(ctx, []byte("t"), []byte(key), vals)
	if err != nil {
		panic(err)
	}
	p.SetRegion(reg)
	return p
}

// VerifSingleFrames: a sequence of single calls (gets with and without a priority, puts with
// 0..2 cells) on one connection, with or without cellblock compression: every frame is
// self-consistent and says what the caller built. Pooled request headers must not leak fields
// from one request into the next.
func VerifSingleFrames() {
	conn := &vConn{}
	c := vNewClient(conn, 1)
	var codec *vCodec
	if verifBool() {
		codec = &vCodec{chunk: 64, maxEnc: 2}
		c.compressor = &compressor{Codec: codec}
	}
	reg := vReg("t,,1")
	ctx := context.Background()
	n := verifParam("CALLS")
	type want struct {
		method   string
		priority uint32
		cellsN   int
		key      string
	}
	var wants []want
	for i := 0; i < n; i++ {
		var cl hrpc.Call
		w := want{key: vKeys[i]}
		switch verifInt(0, 2) {
		case 0:
			g, _ := hrpc.NewGet(ctx, []byte("t"), []byte(w.key))
			g.SetRegion(reg)
			cl, w.method = g, "Get"
		case 1:
			w.priority = verifU32()
			verifAssume(w.priority > 0)
			g, _ := hrpc.NewGet(ctx, []byte("t"), []byte(w.key), hrpc.Priority(w.priority))
			g.SetRegion(reg)
			cl, w.method = g, "Get"
		case 2:
			w.cellsN = verifInt(0, 2)
			cl, w.method = vPutVals(ctx, w.key, reg, w.cellsN), "Mutate"
		}
		wants = append(wants, w)
		verifAssert(c.trySend(cl) == nil, "send")
	}
	if codec != nil {
		for i := range codec.pairs {
			for j := 0; j < i; j++ {
				// a lossless codec: different inputs, different encodings
				verifAssume(!vBytesEq(codec.pairs[i].enc, codec.pairs[j].enc) || vBytesEq(codec.pairs[i].src, codec.pairs[j].src))
			}
		}
	}
	stream := conn.wrote
	seen := map[uint32]bool{}
	for i, w := range wants {
		f := vParseFrame(stream)
		verifAssert(f.ok, "the stream is a sequence of whole frames: length prefix = header + request + cellblocks")
		stream = f.rest
		verifAssert(f.hdr.GetMethodName() == w.method, "the header names the method of the request")
		verifAssert(f.hdr.CallId != nil && !seen[f.hdr.GetCallId()], "every frame carries a call id unique on the connection")
		seen[f.hdr.GetCallId()] = true
		cl, registered := c.sent[f.hdr.GetCallId()]
		verifAssert(registered && string(cl.Key()) == w.key, "the call id in the frame is the id the request is registered under")
		if w.priority > 0 {
			verifAssert(f.hdr.Priority != nil && *f.hdr.Priority == w.priority, "a request with a priority carries it")
		} else {
			verifAssert(f.hdr.GetPriority() == 0, "a request without a priority carries none")
		}
		if len(f.cells) > 0 {
			verifAssert(f.hdr.CellBlockMeta != nil && f.hdr.CellBlockMeta.GetLength() == uint32(len(f.cells)),
				"the declared cellblock length equals the trailing cellblock")
		} else {
			verifAssert(f.hdr.CellBlockMeta == nil, "no cellblock, no cellblock meta")
		}
		cells := f.cells
		if codec != nil && len(cells) > 0 {
			var err error
			cells, err = c.compressor.decompressCellblocks(cells)
			verifAssert(err == nil, "the compressed cellblock decompresses")
		}
		verifAssert(vCountCells(cells) == w.cellsN, "the cellblock holds the cells of the mutation")
		switch r := f.req.(type) {
		case *pb.GetRequest:
			verifAssert(string(r.Get.Row) == w.key, "the get addresses the row the caller asked for")
		case *pb.MutateRequest:
			verifAssert(string(r.Mutation.Row) == w.key, "the mutation addresses the row the caller asked for")
			verifAssert(int(r.Mutation.GetAssociatedCellCount()) == w.cellsN, "associated_cell_count equals the cells in the cellblock")
		default:
			verifFail("unexpected request type in frame")
		}
		_ = i
	}
	verifAssert(len(stream) == 0, "nothing but the frames is written")
	verifReach("frames")
}

// VerifResend: a call is sent, its region is replaced (split, merge, table re-created: the
// client calls SetRegion before every attempt) and it is sent again, as the retry loop does:
// the second frame names the new region, keeps row and method, and has a fresh call id.
func VerifResend() {
	conn := &vConn{}
	c := vNewClient(conn, 1)
	regA, regB := vReg("t,,1"), vReg("t,,2")
	ctx := context.Background()
	var cl hrpc.Call
	method := ""
	switch verifInt(0, 2) {
	case 0:
		g, _ := hrpc.NewGet(ctx, []byte("t"), []byte("a"))
		cl, method = g, "Get"
	case 1:
		cl, method = vPutVals(ctx, "a", regA, 1), "Mutate"
	case 2:
		cl, method = vScan(ctx, regA), "Scan"
	}
	cl.SetRegion(regA)
	verifAssert(c.trySend(cl) == nil, "send")
	cl.SetRegion(regB)
	verifAssert(c.trySend(cl) == nil, "send again")
	stream := conn.wrote
	var ids []uint32
	for i, reg := range []hrpc.RegionInfo{regA, regB} {
		f := vParseFrame(stream)
		verifAssert(f.ok, "the stream is a sequence of whole frames")
		stream = f.rest
		verifAssert(f.hdr.GetMethodName() == method, "the header names the method of the request")
		ids = append(ids, f.hdr.GetCallId())
		var spec *pb.RegionSpecifier
		switch r := f.req.(type) {
		case *pb.GetRequest:
			spec = r.Region
			verifAssert(string(r.Get.Row) == "a", "the get addresses the row the caller asked for")
		case *pb.MutateRequest:
			spec = r.Region
			verifAssert(string(r.Mutation.Row) == "a", "the mutation addresses the row the caller asked for")
		case *pb.ScanRequest:
			spec = r.Region
		default:
			verifFail("unexpected request type in frame")
		}
		verifAssert(spec != nil && string(spec.Value) == string(reg.Name()), "every attempt names the region the call is assigned to at that moment")
		_ = i
	}
	verifAssert(ids[0] != ids[1], "the second attempt has its own call id")
	verifAssert(len(stream) == 0, "nothing but the frames is written")
	verifReach("resent")
}

// VerifMultiFrame: calls over two regions grouped into one multi-request (every interleaving
// of the regions in the batch, every iteration order of the per-region map): the cellblocks
// follow the order of the region actions in the request, so that the server, which hands out
// cells sequentially, gives every mutation its own cells.
// vOnlyGets: VerifMultiFrame builds gets only (more calls, every assignment of calls to regions).
var vOnlyGets bool

// VerifMultiFrameGets: CALLS gets over two regions in every order (A B A B ...): each action is
// listed under the region of its own call.
func VerifMultiFrameGets() {
	vOnlyGets = true
	VerifMultiFrame()
}

func VerifMultiFrame() {
	conn := &vConn{}
	c := vNewClient(conn, 4)
	regA, regB := vReg("t,,1"), vReg("t,m,2")
	ctx := context.Background()
	n := verifParam("CALLS")
	m := newMulti(4)
	var calls []hrpc.Call
	for i := 0; i < n; i++ {
		reg := regA
		if verifBool() {
			reg = regB
		}
		if vOnlyGets || verifBool() {
			calls = append(calls, vGet(ctx, vKeys[i], reg))
		} else {
			calls = append(calls, vPutVals(ctx, vKeys[i], reg, 1+verifInt(0, 1)))
		}
	}
	m.add(calls)
	verifAssert(c.trySend(m) == nil, "send")
	f := vParseFrame(conn.wrote)
	verifAssert(f.ok && len(f.rest) == 0, "one whole frame is written")
	verifAssert(f.hdr.GetMethodName() == "Multi", "the header names Multi")
	mr := f.req.(*pb.MultiRequest)
	// walk the actions in request order and consume the cellblock the way a regionserver does
	cells := f.cells
	total := 0
	seen := make([]bool, n)
	for _, ra := range mr.RegionAction {
		last := 0
		for _, a := range ra.Action {
			idx := int(a.GetIndex())
			verifAssert(idx >= 1 && idx <= n && !seen[idx-1], "every action carries the index of one call of the batch")
			seen[idx-1] = true
			verifAssert(idx > last, "actions of one region keep the order of the batch")
			last = idx
			cl := calls[idx-1]
			verifAssert(string(ra.Region.Value) == string(cl.Region().Name()), "the action is listed under its call's region")
			if a.Mutation != nil {
				verifAssert(string(a.Mutation.Row) == string(cl.Key()), "the action addresses its call's row")
				k := int(a.Mutation.GetAssociatedCellCount())
				total += k
				for j := 0; j < k; j++ {
					verifAssert(len(cells) >= 4, "the cellblock holds the cells the actions announce")
					l := int(vU32(cells))
					cell := cells[4 : 4+l]
					rowLen := int(cell[8])<<8 | int(cell[9])
					row := cell[10 : 10+rowLen]
					verifAssert(string(row) == string(cl.Key()), "cells reach the server in the order of the actions they belong to")
					cells = cells[4+l:]
				}
			} else {
				verifAssert(a.Get != nil && string(a.Get.Row) == string(cl.Key()), "the action addresses its call's row")
			}
		}
	}
	for i := range seen {
		verifAssert(seen[i], "every call of the batch is in the request")
	}
	verifAssert(len(cells) == 0, "no cells beyond those announced")
	if total > 0 {
		verifAssert(f.hdr.CellBlockMeta.GetLength() == uint32(len(f.cells)), "declared cellblock length equals the trailing cellblock")
	}
	verifReach("multi")
}

// VerifConcurrentSenders: an unbatched call with cellblocks written by its caller while the
// batching goroutine flushes a multi with cellblocks, on a connection that is not a kernel TCP
// socket (net.Buffers.WriteTo issues one Write per buffer): the byte stream is a
// concatenation of whole frames under every interleaving.
func VerifConcurrentSenders() {
	conn := &vConn{yield: true}
	c := vNewClient(conn, 4)
	reg := vReg("t,,1")
	ctx := context.Background()
	var single hrpc.Call = vPutVals(ctx, "a", reg, 1)
	plain := verifBool()
	if plain {
		single = vGet(ctx, "a", reg) // a request without cellblocks: a single Write
	}
	m := newMulti(4)
	m.add([]hrpc.Call{vPutVals(ctx, "b", reg, 1)})
	done := make(chan struct{})
	go func() {
		verifAssert(c.trySend(m) == nil, "send multi")
		close(done)
	}()
	verifAssert(c.trySend(single) == nil, "send single call")
	<-done
	stream := conn.wrote
	cellFrames := 0
	for i := 0; i < 2; i++ {
		f := vParseFrame(stream)
		verifAssert(f.ok, "the stream is a concatenation of whole frames")
		k := vCountCells(f.cells)
		verifAssert(k == 0 || k == 1, "every frame is followed by its own cellblock, whole")
		if f.hdr.GetMethodName() == "Get" {
			verifAssert(k == 0, "a get is not followed by another request's cells")
		} else {
			verifAssert(k == 1, "a mutation is followed by its own cellblock")
		}
		cellFrames += k
		stream = f.rest
	}
	if plain {
		verifAssert(cellFrames == 1, "one cellblock in the stream")
	}
	verifAssert(len(stream) == 0, "nothing but the two frames is written")
	verifReach("two-senders")
}

// vPlainCodec: a lossless codec whose Encode is a scheduling point (a real codec takes time).
type vPlainCodec struct{}

func (vPlainCodec) Encode(src, dst []byte) ([]byte, uint32) {
	verifYield()
	verifJitter()
	return append(dst, src...), uint32(len(src))
}
func (vPlainCodec) Decode(src, dst []byte) ([]byte, uint32, error) {
	return append(dst, src...), uint32(len(src)), nil
}
func (vPlainCodec) ChunkLen() uint32                 { return 256 }
func (vPlainCodec) CellBlockCompressorClass() string { return "verif.Plain" }

// vCellRow returns the row of the first KeyValue of a cellblock ("" if malformed).
func vCellRow(b []byte) string {
	if len(b) < 14 {
		return ""
	}
	rl := int(b[12])<<8 | int(b[13])
	if len(b) < 14+rl {
		return ""
	}
	return string(b[14 : 14+rl])
}

// VerifCompressConcurrent (C15/C05): two senders on one connection with cellblock compression
// (the caller of an unbatched put and the batching goroutine flushing a multi): under every
// interleaving - in particular one sender entering the codec while the other is between
// gathering its chunk and encoding it - each frame carries the compressed form of its own
// request's cells.
func VerifCompressConcurrent() {
	conn := &vConn{}
	c := vNewClient(conn, 4)
	c.compressor = &compressor{Codec: vPlainCodec{}}
	reg := vReg("t,,1")
	ctx := context.Background()
	single := vPutVals(ctx, "a", reg, 1)
	m := newMulti(4)
	m.add([]hrpc.Call{vPutVals(ctx, "b", reg, 1)})
	done := make(chan struct{})
	go func() {
		verifAssert(c.trySend(m) == nil, "send multi")
		close(done)
	}()
	verifAssert(c.trySend(single) == nil, "send single call")
	<-done
	stream := conn.wrote
	for i := 0; i < 2; i++ {
		f := vParseFrame(stream)
		verifAssert(f.ok, "the stream is a concatenation of whole frames")
		cells, err := c.compressor.decompressCellblocks(f.cells)
		verifAssert(err == nil, "the frame's cellblock decompresses")
		verifAssert(vCountCells(cells) == 1, "one whole cell per frame")
		want := "a"
		if f.hdr.GetMethodName() == "Multi" {
			want = "b"
		}
		verifAssert(vCellRow(cells) == want, "the frame carries its own request's cells, not the other sender's")
		stream = f.rest
	}
	verifAssert(len(stream) == 0, "nothing but the two frames is written")
	verifReach("two-compressing-senders")
}

// VerifHello: the connection preamble and header come first.
func VerifHello() {
	conn := &vConn{}
	c := vNewClient(conn, 1)
	c.effectiveUser = "u"
	verifAssert(c.sendHello() == nil, "hello is written")
	w := conn.wrote
	verifAssert(len(w) >= 10 && string(w[:6]) == "HBas\x00\x50", "preamble: magic, version 0, simple auth")
	verifAssert(int(vU32(w[6:])) == len(w)-10, "big-endian length of the connection header that follows")
	verifReach("hello")
}

// VerifQueueFlush (C12/C02/C05): the batching goroutine of a real region client (queue size 2,
// flush interval > 0 or 0) is handed CALLS gets - one by one or two at a time, with or without a
// pause in which the flush timer may fire: whatever way the calls end up grouped, every call is
// written exactly once, the calls of the one region in the order they were queued, and when
// the client is closed every call gets exactly one result.
func VerifQueueFlush() {
	conn := &vConn{}
	c := vNewClient(conn, 2)
	if verifBool() {
		c.flushInterval = 20 * time.Millisecond
	}
	reg := vReg("t,,1")
	ctx := context.Background()
	n := verifParam("CALLS")
	var calls []hrpc.Call
	for i := 0; i < n; i++ {
		calls = append(calls, vGet(ctx, vKeys[i], reg))
	}
	go c.processRPCs()
	for i := 0; i < n; {
		if i+1 < n && verifBool() {
			c.QueueBatch(ctx, []hrpc.Call{calls[i], calls[i+1]})
			i += 2
		} else {
			c.QueueRPC(calls[i])
			i++
		}
		if verifBool() {
			verifQuiesce() // the caller pauses: the writer may flush on its timer
		}
	}
	verifQuiesce()
	if verifNative() {
		time.Sleep(60 * time.Millisecond) // let the flush timer fire
		verifQuiesce()
	}
	stream := conn.wrote
	pos := 0
	seen := map[string]int{}
	for len(stream) > 0 {
		f := vParseFrame(stream)
		verifAssert(f.ok && f.hdr.GetMethodName() == "Multi", "the writer sends whole multi-requests")
		stream = f.rest
		mr := f.req.(*pb.MultiRequest)
		verifAssert(len(mr.RegionAction) == 1, "one region, one region action")
		for _, a := range mr.RegionAction[0].Action {
			row := string(a.Get.Row)
			seen[row]++
			verifAssert(pos < n && row == vKeys[pos], "the calls of a region reach the server in the order they were queued")
			pos++
		}
	}
	verifAssert(pos == n, "every queued call has been written")
	for i := 0; i < n; i++ {
		verifAssert(seen[vKeys[i]] == 1, "every call is written exactly once")
	}
	c.Close()
	verifQuiesce()
	for _, cl := range calls {
		verifAssert(vResults(cl) == 1, "every call gets exactly one result when the connection is closed")
	}
	verifAssert(verifGoroutines() == 0, "the writer is gone after Close")
	verifObserveInt("frames", len(conn.writes))
	verifReach("flushed")
}
