package gohbase

import (
	"context"

	"github.com/tsuna/gohbase/hrpc"
)

// Native counterpart of the engine stub (*client).lookupRegion => vLookupRegion.
func (c *client) lookupRegion(ctx context.Context, table, key []byte) (hrpc.RegionInfo, string, error) {
	if vRealLookup {
		return c.lookupRegionOrig(ctx, table, key) // a job that runs the real lookup loop
	}
	return vLookupRegion(c, ctx, table, key)
}
