package gohbase

import (
	"context"

	"github.com/tsuna/gohbase/hrpc"
)

// Native counterpart of the engine stub
//
//	(*client).getRegionAndClientForRPC => vBatchLocate
//
// (the original method is renamed in an overlaid copy of rpc.go, see props.py native_cuts).
func (c *client) getRegionAndClientForRPC(ctx context.Context, rpc hrpc.Call) (hrpc.RegionClient, error) {
	return vBatchLocate(c, ctx, rpc)
}
