package gohbase

import (
	"bytes"
	"context"
	"errors"
	"time"

	"github.com/tsuna/gohbase/hrpc"
	"github.com/tsuna/gohbase/pb"
	"github.com/tsuna/gohbase/region"
	"google.golang.org/protobuf/proto"
)

// C01 (meta path) — a key outside every cached range is resolved through hbase:meta: the
// client asks for the closest row at or before "table,key,:" (reversed, one row, stop at the
// table name), and accepts the row only if it describes a region of the requested table whose
// range does not end at or before the key.
// Real code: metaLookup, createRegionSearchKey, hrpc.NewScanRange + options, scanner.Next /
// fetch / request, region.ParseRegionInfo, infoFromCell, fullyQualifiedTable.
// Cut: (*client).SendRPC -> vMetaSendRPC (hbase:meta answers with one arbitrary row).

type vMetaEnv struct {
	req     *pb.ScanRequest
	row     *pb.Result
	noRow   bool
	metaKey []byte
	calls   int
	rows    []*pb.Result        // table listing (lookupAllRegions): all rows, in one response
	mkRows  func() []*pb.Result // ... built afresh for every request (the scanner consumes the slice it is given)
	fails   int                 // the first so many scans of hbase:meta fail
	failed  int
}

var vErrMeta = errors.New("verif: hbase:meta unavailable")

var vMeta *vMetaEnv

func vMetaSendRPC(c *client, rpc hrpc.Call) (proto.Message, error) {
	e := vMeta
	e.calls++
	sc, ok := rpc.(*hrpc.Scan)
	if !ok || !bytes.Equal(rpc.Table(), metaTableName) {
		verifFail("a meta lookup sends a scan of hbase:meta")
	}
	sc.SetRegion(c.metaRegionInfo)
	if e.failed < e.fails {
		e.failed++
		return nil, vErrMeta
	}
	if e.mkRows != nil {
		region.VerifResetWire() // what an abandoned earlier attempt has not decoded is gone
		e.rows = e.mkRows()
	}
	if e.rows != nil {
		e.req = sc.ToProto().(*pb.ScanRequest)
		return &pb.ScanResponse{MoreResults: proto.Bool(false), MoreResultsInRegion: proto.Bool(false), Results: e.rows}, nil
	}
	if e.req == nil {
		e.req = sc.ToProto().(*pb.ScanRequest)
		e.metaKey = append([]byte{}, sc.Key()...)
	}
	resp := &pb.ScanResponse{MoreResults: proto.Bool(false), MoreResultsInRegion: proto.Bool(false)}
	if !e.noRow && e.calls == 1 {
		resp.Results = []*pb.Result{e.row}
	}
	return resp, nil
}

func VerifMetaLookup() {
	c := vNewRootClient()
	e := &vMetaEnv{}
	vMeta = e
	want := verifChoose(verifParam("T"))
	table := []byte(vTables[want].fq)
	key := verifBytes(verifParam("KEYL"))

	// what hbase:meta returns: nothing, or the row of an arbitrary region of any table
	e.noRow = verifBool()
	got := verifChoose(verifParam("T"))
	start, stop := verifBytes(1), verifBytes(1)
	ri := &pb.RegionInfo{RegionId: proto.Uint64(7), StartKey: start, EndKey: stop,
		TableName: &pb.TableName{Namespace: []byte("default"), Qualifier: []byte(vTables[got].table)}}
	if vTables[got].ns != "" {
		ri.TableName.Namespace = []byte(vTables[got].ns)
	}
	name := append([]byte(vTables[got].fq+","), start...)
	name = append(name, ",7"...)
	e.row = &pb.Result{Cell: []*pb.Cell{
		{Row: name, Family: []byte("info"), Qualifier: []byte("regioninfo"), Value: append([]byte("PBUF"), region.VerifWire(ri, false)...)},
		{Row: name, Family: []byte("info"), Qualifier: []byte("server"), Value: []byte("rs0:1")},
	}}

	reg, addr, err := c.metaLookup(context.Background(), table, key)
	region.VerifResetWire()

	// the question asked of hbase:meta
	verifAssert(e.req != nil && e.req.Scan != nil, "hbase:meta is scanned")
	verifAssert(e.req.Scan.GetReversed(), "the scan is reversed: closest row at or before the search key")
	verifAssert(bytes.Equal(e.req.Scan.StartRow, createRegionSearchKey(table, key)), "it starts at table,key,:")
	verifAssert(bytes.Equal(e.req.Scan.StopRow, table), "it does not go below the table's own rows")
	verifAssert(e.req.GetNumberOfRows() == 1 && e.req.GetCloseScanner(), "one row is asked for and the scanner closed at once")

	if e.noRow {
		verifAssert(err == TableNotFound, "no row at or before the search key means the table does not exist")
		verifReach("not-found")
		return
	}
	if err == nil {
		verifReach("accepted")
		verifAssert(addr == "rs0:1", "the address is the row's server")
		verifAssert(got == want, "a region of another table (also a same-prefixed one) is not accepted")
		verifAssert(len(reg.StopKey()) == 0 || bytes.Compare(key, reg.StopKey()) < 0, "a region that ends at or before the key is not accepted")
		verifAssert(bytes.Equal(reg.StartKey(), start) && bytes.Equal(reg.Name(), name), "the region is the one the row describes")
	} else {
		verifReach("rejected")
		verifAssert(got != want || (len(stop) != 0 && bytes.Compare(key, stop) >= 0), "a row of the right table that covers the key is accepted")
	}
}

// vMetaRow: the hbase:meta row of a region of table #ti.
func vMetaRow(ti int, id uint64, start, stop []byte, addr string) *pb.Result {
	ri := &pb.RegionInfo{RegionId: proto.Uint64(id), StartKey: start, EndKey: stop,
		TableName: &pb.TableName{Namespace: []byte("default"), Qualifier: []byte(vTables[ti].table)}}
	if vTables[ti].ns != "" {
		ri.TableName.Namespace = []byte(vTables[ti].ns)
	}
	name := append([]byte(vTables[ti].fq+","), start...)
	name = append(name, ',', byte('0'+id))
	return &pb.Result{Cell: []*pb.Cell{
		{Row: name, Family: []byte("info"), Qualifier: []byte("regioninfo"), Value: append([]byte("PBUF"), region.VerifWire(ri, false)...)},
		{Row: name, Family: []byte("info"), Qualifier: []byte("server"), Value: []byte(addr)},
	}}
}

// VerifListRegions (C01, CacheRegions path): hbase:meta lists the table's regions (two regions
// split at an arbitrary key, on two servers); lookupAllRegions asks for exactly the table's
// rows and returns every region with its server, in order.
func VerifListRegions() {
	c := vNewRootClient()
	c.regionLookupTimeout = time.Hour
	e := &vMetaEnv{}
	vMeta = e
	split := verifBytesN(1)
	e.rows = []*pb.Result{vMetaRow(0, 1, nil, split, "rs0:1"), vMetaRow(0, 2, split, nil, "rs1:1")}
	regs, err := c.lookupAllRegions(context.Background(), []byte("t"))
	region.VerifResetWire()
	verifAssert(err == nil && len(regs) == 2, "both regions of the table are returned")
	verifAssert(e.req != nil && e.req.Scan != nil && !e.req.Scan.GetReversed(), "hbase:meta is scanned forward")
	verifAssert(bytes.Compare(e.req.Scan.StartRow, []byte("t,")) <= 0 && bytes.HasPrefix(e.req.Scan.StartRow, []byte("t")) &&
		bytes.Compare(e.req.Scan.StopRow, []byte("t,\xff\xff\xff\xff")) > 0,
		"the scan covers all the rows \"t,<start key>,<id>\" of the table")
	verifAssert(len(regs[0].regionInfo.StartKey()) == 0 && bytes.Equal(regs[0].regionInfo.StopKey(), split) && regs[0].addr == "rs0:1",
		"the first region with its range and server")
	verifAssert(bytes.Equal(regs[1].regionInfo.StartKey(), split) && len(regs[1].regionInfo.StopKey()) == 0 && regs[1].addr == "rs1:1",
		"the second region with its range and server")
	verifReach("listed")
}

// VerifLookupAllPacing (C17): lookupAllRegions against an hbase:meta that fails ATTEMPTS times
// and then answers: one wait between consecutive attempts, on the schedule.
func VerifLookupAllPacing() {
	c := vNewRootClient()
	c.regionLookupTimeout = time.Hour
	n := verifParam("ATTEMPTS")
	e := &vMetaEnv{fails: n}
	vMeta = e
	e.rows = []*pb.Result{vMetaRow(0, 1, nil, nil, "rs0:1")}
	var sleeps []time.Duration
	sleepAndIncreaseBackoffOverride = func(ctx context.Context, b time.Duration) (time.Duration, error) {
		sleeps = append(sleeps, b)
		return b * 2, nil
	}
	regs, err := c.lookupAllRegions(context.Background(), []byte("t"))
	sleepAndIncreaseBackoffOverride = nil
	region.VerifResetWire()
	verifAssert(err == nil && len(regs) == 1, "the listing succeeds once hbase:meta answers")
	verifAssert(len(sleeps) == n, "one wait after every failed listing")
	for i, d := range sleeps {
		verifAssert(d == (16*time.Millisecond)<<uint(i), "the waits follow the schedule")
	}
	verifReach("paced")
}

// VerifCacheRegions (C01 / C20): CacheRegions lists the table in hbase:meta (two regions split
// at an arbitrary key, on one server or on two) and establishes them: afterwards both regions
// are cached and available, every key of the table is routed to the region that contains it,
// and regions on the same server share one connection that was dialled once.
func VerifCacheRegions() {
	c, e := vCluSetup()
	c.regionLookupTimeout = time.Hour
	m := &vMetaEnv{}
	vMeta = m
	split := verifBytesN(1)
	addr2 := "rs0:1"
	if verifBool() {
		addr2 = "rs1:1"
	}
	m.mkRows = func() []*pb.Result {
		return []*pb.Result{vMetaRow(0, 1, nil, split, "rs0:1"), vMetaRow(0, 2, split, nil, addr2)}
	}
	err := c.CacheRegions([]byte("t"))
	region.VerifResetWire()
	verifQuiesce()
	sleepAndIncreaseBackoffOverride = nil
	verifAssert(err == nil, "the table is listed")
	regs := vTreeContents(&c.regions)
	verifAssert(len(regs) == 2, "both regions are cached")
	for i, r := range regs {
		verifAssert(!r.IsUnavailable() && r.Client() != nil, "a listed region is established and available")
		want := "rs0:1"
		if i == 1 {
			want = addr2
		}
		verifAssert(r.Client().Addr() == want, "a region is served through the server hbase:meta lists for it")
	}
	if addr2 == "rs0:1" {
		verifAssert(regs[0].Client() == regs[1].Client() && e.made["rs0:1"] == 1, "regions of one server share one connection")
	} else {
		verifAssert(e.made["rs0:1"] == 1 && e.made["rs1:1"] == 1, "one connection per server")
	}
	k := verifBytes(1)
	got := c.getRegionFromCache([]byte("t"), k)
	wantReg := regs[0]
	if bytes.Compare(k, split) >= 0 {
		wantReg = regs[1]
	}
	verifAssert(got == wantReg, "every key of the table is routed to the region that contains it")
	verifAssert(verifGoroutines() == 0, "the establishers are done")
	verifReach("cached")
}
