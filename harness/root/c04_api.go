package gohbase

import (
	"context"
	"errors"

	"github.com/tsuna/gohbase/hrpc"
	"github.com/tsuna/gohbase/pb"
	"google.golang.org/protobuf/proto"
)

// C04 / C02 at the public API: Get, Put, Delete, Append, Increment and CheckAndPut hand the
// caller exactly what the server answered to *that* request - its cells, its counter value,
// its processed flag - and an application error unchanged.
// Real code: (*client).Get / Put / Delete / Append / Increment / CheckAndPut / mutate, SendRPC,
// getRegionAndClientForRPC (cached, available region), sendRPCToRegionClient,
// hrpc.ToLocalResult, hrpc.NewCheckAndPut, CheckAndPut.ToProto.

var vErrAPI = errors.New("verif: application exception")

// vAPIRC answers every call with the scripted response (or error) and records the call.
type vAPIRC struct {
	vRegionClient
	msg  proto.Message
	err  error
	seen []hrpc.Call
}

func (r *vAPIRC) QueueRPC(c hrpc.Call) {
	r.seen = append(r.seen, c)
	c.ResultChan() <- hrpc.RPCResult{Msg: r.msg, Error: r.err}
}

func vAPICells(n int, tag byte) (*pb.Result, [][]byte) {
	res := &pb.Result{}
	var vals [][]byte
	for i := 0; i < n; i++ {
		v := verifBytes(2)
		vals = append(vals, v)
		res.Cell = append(res.Cell, &pb.Cell{Row: []byte("k"), Family: []byte("f"), Qualifier: []byte{tag, byte('0' + i)}, Value: v})
	}
	return res, vals
}

func VerifPublicAPI() {
	c := vNewRootClient()
	reg := vMkRegion(0, 1, nil, nil)
	c.regions.put(reg)
	rc := &vAPIRC{}
	rc.addr = "rs0:1"
	reg.SetClient(c.clients.put(rc.addr, reg, func() hrpc.RegionClient { return rc }))
	ctx := context.Background()
	fails := verifBool()
	if fails {
		rc.err = vErrAPI
	}
	vals := map[string]map[string][]byte{"f": {"q": []byte("v")}}
	op := verifChoose(6)
	switch op {
	case 0: // Get
		n := verifInt(0, 2)
		res, want := vAPICells(n, 'g')
		rc.msg = &pb.GetResponse{Result: res}
		g, _ := hrpc.NewGet(ctx, []byte("t"), []byte("k"))
		r, err := c.Get(g)
		verifAssert(len(rc.seen) == 1 && rc.seen[0] == hrpc.Call(g), "the caller's get is what reaches the server")
		if fails {
			verifAssert(err == vErrAPI && r == nil, "an application error is returned unchanged, with no result")
			break
		}
		verifAssert(err == nil && r != nil && len(r.Cells) == n, "the get returns the cells the server sent")
		for i := range want {
			verifAssert(string(r.Cells[i].Value) == string(want[i]) && r.Cells[i].Qualifier[1] == byte('0'+i), "cell by cell, in order")
		}
	case 1, 2, 3: // Put, Delete, Append
		n := verifInt(0, 2)
		res, want := vAPICells(n, 'm')
		rc.msg = &pb.MutateResponse{Result: res}
		var m *hrpc.Mutate
		var r *hrpc.Result
		var err error
		switch op {
		case 1:
			m, _ = hrpc.NewPut(ctx, []byte("t"), []byte("k"), vals)
			r, err = c.Put(m)
		case 2:
			m, _ = hrpc.NewDel(ctx, []byte("t"), []byte("k"), vals)
			r, err = c.Delete(m)
		default:
			m, _ = hrpc.NewApp(ctx, []byte("t"), []byte("k"), vals)
			r, err = c.Append(m)
		}
		verifAssert(len(rc.seen) == 1 && rc.seen[0] == hrpc.Call(m), "the caller's mutation is what reaches the server")
		if fails {
			verifAssert(err == vErrAPI && r == nil, "an application error is returned unchanged, with no result")
			break
		}
		verifAssert(err == nil && r != nil && len(r.Cells) == n, "the mutation returns the cells the server sent")
		for i := range want {
			verifAssert(string(r.Cells[i].Value) == string(want[i]), "cell by cell, in order")
		}
	case 4: // Increment
		v := verifU64()
		buf := []byte{byte(v >> 56), byte(v >> 48), byte(v >> 40), byte(v >> 32), byte(v >> 24), byte(v >> 16), byte(v >> 8), byte(v)}
		rc.msg = &pb.MutateResponse{Result: &pb.Result{Cell: []*pb.Cell{{Row: []byte("k"), Family: []byte("f"), Qualifier: []byte("q"), Value: buf}}}}
		m, _ := hrpc.NewInc(ctx, []byte("t"), []byte("k"), map[string]map[string][]byte{"f": {"q": {0, 0, 0, 0, 0, 0, 0, 1}}})
		got, err := c.Increment(m)
		verifAssert(len(rc.seen) == 1 && rc.seen[0] == hrpc.Call(m), "the caller's increment is what reaches the server")
		if fails {
			verifAssert(err == vErrAPI && got == 0, "an application error is returned unchanged")
			break
		}
		verifAssert(err == nil && got == int64(v), "the increment returns the counter value the server sent")
	default: // CheckAndPut
		processed := verifBool()
		rc.msg = &pb.MutateResponse{Processed: proto.Bool(processed)}
		m, _ := hrpc.NewPut(ctx, []byte("t"), []byte("k"), vals)
		got, err := c.CheckAndPut(m, "f", "q", []byte("old"))
		verifAssert(len(rc.seen) == 1, "one request reaches the server")
		cas, ok := rc.seen[0].(*hrpc.CheckAndPut)
		verifAssert(ok && cas.Mutate == m, "it is a check-and-put around the caller's put")
		if ok {
			req := cas.ToProto().(*pb.MutateRequest)
			verifAssert(req.Condition != nil && string(req.Condition.Row) == "k" && string(req.Condition.Family) == "f" &&
				string(req.Condition.Qualifier) == "q" && req.Condition.GetCompareType() == pb.CompareType_EQUAL,
				"the condition names the caller's row, family and qualifier and compares for equality")
			verifAssert(string(req.Mutation.Row) == "k" && req.Mutation.GetMutateType() == pb.MutationProto_PUT, "the mutation is the caller's put")
		}
		if fails {
			verifAssert(err == vErrAPI && !got, "an application error is returned unchanged")
			break
		}
		verifAssert(err == nil && got == processed, "check-and-put reports whether the server applied the put")
	}
	verifObserveInt("op", op)
	verifReach("api")
}
