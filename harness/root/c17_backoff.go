package gohbase

import (
	"context"
	"errors"
	"time"

	"github.com/tsuna/gohbase/hrpc"
	"github.com/tsuna/gohbase/region"
	"github.com/tsuna/gohbase/zk"
)

// C17 — retries back off and never become a hot loop.
// Real code: sleepAndIncreaseBackoff (with the engine's timer model: the duration asked of
// time.After is recorded), SendRPC, SendBatch, establishRegion, lookup retry loops.

// VerifBackoffFormula: for EVERY 64-bit back-off value: a zero back-off returns 16 ms without
// waiting; otherwise the wait requested is exactly the back-off and the next value is 2b below
// 5 s, b+5 s below 30 s, b from then on; a wait ends early only through cancellation.
func VerifBackoffFormula() { vBackoffFormula(context.Background(), false) }

// VerifBackoffFormulaDeadline: the same under a context that has a deadline (a request with a
// time-out): the wait requested is still the scheduled one; it may end early only because the
// deadline passes, with the context's error.
func VerifBackoffFormulaDeadline() {
	ctx, cancel := context.WithTimeout(context.Background(), time.Hour)
	defer cancel()
	vBackoffFormula(ctx, true)
}

func vBackoffFormula(ctx context.Context, deadline bool) {
	b := time.Duration(verifI64())
	verifAssume(b >= 0)
	if verifParam("SMALL") == 1 {
		verifAssume(b <= time.Millisecond) // this job is also replayed natively, which really sleeps
	}
	t0 := verifTimerCount()
	next, err := sleepAndIncreaseBackoff(ctx, b)
	if deadline && err != nil {
		verifAssert(err == context.DeadlineExceeded && b != 0, "a wait ends early only because the context's deadline passed")
		verifAssert(verifTimerCount() == t0+1 && verifTimerDur(t0) == int64(b), "the wait requested is exactly the back-off")
		verifReach("deadline-passed")
		return
	}
	verifAssert(err == nil, "a wait under a live context ends without error")
	if b == 0 {
		verifAssert(next == 16*time.Millisecond, "the first back-off is 16 ms")
		verifAssert(verifNative() || verifTimerCount() == t0, "a zero back-off does not wait")
		verifReach("zero")
		return
	}
	if !verifNative() {
		verifAssert(verifTimerCount() == t0+1, "exactly one wait is requested")
		verifAssert(verifTimerDur(t0) == int64(b), "the wait requested is exactly the back-off")
	}
	switch {
	case b < 5*time.Second:
		verifAssert(next == 2*b, "below 5 s the back-off doubles")
		verifReach("doubling")
	case b < 30*time.Second:
		verifAssert(next == b+5*time.Second, "from 5 s to 30 s the back-off grows by 5 s")
		verifReach("linear")
	default:
		verifAssert(next == b, "from 30 s on the back-off stays constant")
		verifReach("constant")
	}
	verifObserveInt("next", int(next))
}

// VerifBackoffCancel: with time standing still a wait ends only through cancellation, with the
// context's error.
func VerifBackoffCancel() {
	b := time.Duration(verifI64())
	verifAssume(b > 0)
	if verifNative() {
		verifAssume(b > time.Hour)
	}
	verifFreezeTime(true)
	ctx, cancel := context.WithCancel(context.Background())
	var next time.Duration
	var err error
	done := false
	go func() {
		next, err = sleepAndIncreaseBackoff(ctx, b)
		done = true
	}()
	verifQuiesce()
	verifAssert(!done, "the wait does not end by itself before its time")
	cancel()
	verifQuiesce()
	verifAssert(done && err == context.Canceled && next == 0, "cancellation ends the wait with the context's error")
	verifReach("cancelled")
}

// VerifBackoffSchedule: the closed-form schedule from 16 ms.
func VerifBackoffSchedule() {
	want := []time.Duration{16, 32, 64, 128, 256, 512, 1024, 2048, 4096, 8192, 13192, 18192, 23192, 28192, 33192, 33192, 33192}
	var b time.Duration
	var err error
	for i, w := range want {
		b, err = sleepAndIncreaseBackoff(context.Background(), b)
		verifAssert(err == nil && b == w*time.Millisecond, "the schedule is 16 ms doubling to 8.192 s, then +5 s to 33.192 s, then constant")
		if i > 0 {
			verifAssert(verifTimerDur(i-1) == int64(want[i-1]*time.Millisecond), "each wait lasts the previous value of the schedule")
		}
	}
	verifReach("schedule")
}

// ---- retry loops ----

type vRetryRC struct {
	vRegionClient
	outcomes []int // scripted outcome per attempt
	attempt  int
	waitsAt  []int // number of waits requested so far, sampled at each attempt
	sleeps   []time.Duration
}

func (r *vRetryRC) deliver(c hrpc.Call) {
	r.waitsAt = append(r.waitsAt, len(r.sleeps))
	o := prOK
	if r.attempt < len(r.outcomes) {
		o = r.outcomes[r.attempt]
	}
	r.attempt++
	switch o {
	case prOK:
		c.ResultChan() <- hrpc.RPCResult{}
	case prRetryLater:
		c.ResultChan() <- hrpc.RPCResult{Error: region.RetryableError{}}
	case prServerError:
		c.ResultChan() <- hrpc.RPCResult{Error: region.ServerError{}}
	case prNotServing:
		c.ResultChan() <- hrpc.RPCResult{Error: region.NotServingRegionError{}}
	}
}
func (r *vRetryRC) QueueRPC(c hrpc.Call) { r.deliver(c) }
func (r *vRetryRC) QueueBatch(ctx context.Context, cs []hrpc.Call) {
	for _, c := range cs {
		r.deliver(c)
	}
}

var vRetryEnv *vRetryRC

// vRetryLocate replaces getRegionAndClientForRPC: the region is always found (the subject is
// the pacing of the attempts, not re-location).
func vRetryLocate(c *client, ctx context.Context, rpc hrpc.Call) (hrpc.RegionClient, error) {
	if ctx.Err() != nil {
		return nil, ctx.Err()
	}
	rpc.SetRegion(vRetryReg)
	return vRetryEnv, nil
}

var vRetryReg hrpc.RegionInfo

// VerifRetryPacing: a single request or a batch of one against a region that answers an
// arbitrary sequence of {retry-later, connection-dead, not-serving} before succeeding: every
// retry-later answer is followed by a wait on the schedule (16 ms, 32 ms, ... in order), and at
// most two connection-level failures are retried without a wait.
func VerifRetryPacing() {
	c := vNewRootClient()
	establishRegionOverride = func(reg hrpc.RegionInfo, addr string) {}
	vRetryReg = vMkRegion(0, 1, nil, nil)
	rc := &vRetryRC{}
	// the repository's own hook: record every wait that is requested (the formula itself is
	// the subject of the backoff_* jobs)
	sleepAndIncreaseBackoffOverride = func(ctx context.Context, b time.Duration) (time.Duration, error) {
		rc.sleeps = append(rc.sleeps, b)
		return b * 2, nil
	}
	rc.addr = "rs0:1"
	vRetryEnv = rc
	n := verifParam("ATTEMPTS")
	for i := 0; i < n; i++ {
		rc.outcomes = append(rc.outcomes, verifInt(1, 3))
	}
	batch := verifParam("BATCH") == 1
	p, _ := hrpc.NewPut(context.Background(), []byte("t"), []byte("k"), map[string]map[string][]byte{"f": {"q": []byte("v")}})
	if batch {
		_, ok := c.SendBatch(context.Background(), []hrpc.Call{p})
		verifAssert(ok, "the batch succeeds once the region answers")
	} else {
		_, err := c.SendRPC(p)
		verifAssert(err == nil, "the request succeeds once the region answers")
	}
	verifQuiesce()
	establishRegionOverride, sleepAndIncreaseBackoffOverride = nil, nil
	verifAssert(rc.attempt == n+1, "one attempt per scripted failure plus the successful one")
	// pacing: waits requested between consecutive attempts
	unpaced := 0
	for i := 0; i < n; i++ {
		waited := rc.waitsAt[i+1] - rc.waitsAt[i]
		switch rc.outcomes[i] {
		case prRetryLater:
			verifAssert(waited == 1, "a retry-later answer is followed by exactly one wait")
		case prServerError:
			if waited == 0 {
				unpaced++
			}
			verifAssert(waited <= 1, "at most one wait between two attempts")
		default:
			verifAssert(waited <= 1, "at most one wait between two attempts")
		}
	}
	verifAssert(unpaced <= 2, "a connection-level failure is retried immediately at most twice before the schedule applies")
	for i, d := range rc.sleeps {
		verifAssert(d == (16*time.Millisecond)<<uint(i), "successive waits of one request follow the schedule in order")
	}
	verifReach("paced")
}

// VerifBatchPacing: a batch of two calls on one server; in every round each call is answered
// from an arbitrary script over {ok, retry-later, connection-dead, not-serving}: a round in
// which any call was told to retry later is followed by a wait before the next round.
func VerifBatchPacing() {
	c := vNewRootClient()
	establishRegionOverride = func(reg hrpc.RegionInfo, addr string) {}
	vRetryReg = vMkRegion(0, 1, nil, nil)
	rc := &vRoundRC{}
	rc.addr = "rs0:1"
	vRetryEnv2 = rc
	sleepAndIncreaseBackoffOverride = func(ctx context.Context, b time.Duration) (time.Duration, error) {
		rc.sleeps = append(rc.sleeps, b)
		return b * 2, nil
	}
	rc.budget = verifParam("ATTEMPTS")
	vals := map[string]map[string][]byte{"f": {"q": []byte("v")}}
	p1, _ := hrpc.NewPut(context.Background(), []byte("t"), []byte("a"), vals)
	p2, _ := hrpc.NewPut(context.Background(), []byte("t"), []byte("b"), vals)
	_, ok := c.SendBatch(context.Background(), []hrpc.Call{p1, p2})
	verifQuiesce()
	establishRegionOverride, sleepAndIncreaseBackoffOverride = nil, nil
	verifAssert(ok, "the batch succeeds once the region answers")
	for i := 0; i+1 < len(rc.rounds); i++ {
		waited := rc.rounds[i+1].waitsBefore - rc.rounds[i].waitsBefore
		if rc.rounds[i].retryLater {
			verifAssert(waited == 1, "a round in which a call was told to retry later is followed by one wait")
			verifReach("waited")
		}
	}
	for i, d := range rc.sleeps {
		verifAssert(d == (16*time.Millisecond)<<uint(i), "successive waits follow the schedule in order")
	}
	verifReach("paced")
}

type vRound struct {
	retryLater  bool
	waitsBefore int
}

type vRoundRC struct {
	vRegionClient
	budget int
	rounds []vRound
	sleeps []time.Duration
}

var vRetryEnv2 *vRoundRC

func (r *vRoundRC) QueueBatch(ctx context.Context, cs []hrpc.Call) {
	rd := vRound{waitsBefore: len(r.sleeps)}
	for _, c := range cs {
		o := prOK
		if r.budget > 0 {
			o = verifInt(0, 3)
			if o != prOK {
				r.budget--
			}
		}
		switch o {
		case prOK:
			c.ResultChan() <- hrpc.RPCResult{}
		case prRetryLater:
			rd.retryLater = true
			c.ResultChan() <- hrpc.RPCResult{Error: region.RetryableError{}}
		case prServerError:
			c.ResultChan() <- hrpc.RPCResult{Error: region.ServerError{}}
		case prNotServing:
			c.ResultChan() <- hrpc.RPCResult{Error: region.NotServingRegionError{}}
		}
	}
	r.rounds = append(r.rounds, rd)
}

// VerifEstablishPacing: a region that keeps failing to come online — dial refused N times,
// hbase:meta listing it on alternating servers — is re-established with waits that follow the
// schedule (the first attempt immediate), whichever address the lookups return.
func VerifEstablishPacing() {
	c, e := vCluSetup()
	var sleeps []time.Duration
	sleepAndIncreaseBackoffOverride = func(ctx context.Context, b time.Duration) (time.Duration, error) {
		sleeps = append(sleeps, b)
		if b == 0 {
			return backoffStart, nil
		}
		return b * 2, nil
	}
	e.bounce = verifBool()
	e.refuse = verifParam("ATTEMPTS")
	reg := vMkRegion(0, 1, nil, nil)
	c.regions.put(reg)
	reg.MarkUnavailable()
	c.establishRegion(reg, "")
	verifQuiesce()
	sleepAndIncreaseBackoffOverride = nil
	verifAssert(!reg.IsUnavailable(), "the region comes online once a dial succeeds")
	verifAssert(len(sleeps) == verifParam("ATTEMPTS")+1, "one wait request per attempt")
	for i, d := range sleeps {
		if i == 0 {
			verifAssert(d == 0, "the first attempt is immediate")
		} else {
			verifAssert(d == (16*time.Millisecond)<<uint(i-1), "successive attempts are separated by waits on the schedule")
		}
	}
	verifReach("paced")
}

// vFlakyZK fails the first `fails` lookups: by an error, or (mode[i] true) by not answering at
// all, so that the lookup runs into the client's regionLookupTimeout.
type vFlakyZK struct {
	fails  int
	calls  int
	stuck  []bool
	never  chan struct{}
	sleeps *[]time.Duration
}

func (z *vFlakyZK) LocateResource(zk.ResourceName) (string, error) {
	// which attempt this is, is told by the waits made so far (a lookup that was abandoned at its
	// time-out may only get here after the client has moved on)
	i := len(*z.sleeps)
	z.calls++
	if i < z.fails {
		if z.stuck[i] {
			<-z.never
		}
		return "", errors.New("verif: zookeeper error")
	}
	return "rs0:1", nil
}

// VerifLookupPacing: the real lookupRegion loop against a ZooKeeper that fails ATTEMPTS times -
// each time by an error or by silence until the lookup's own timeout - and then answers:
// consecutive lookups are separated by one wait each, on the schedule.
func VerifLookupPacing() {
	vRealLookup = true
	c := vNewRootClient()
	c.regionLookupTimeout = 20 * time.Millisecond
	n := verifParam("ATTEMPTS")
	z := &vFlakyZK{fails: n, never: make(chan struct{})}
	for i := 0; i < n; i++ {
		z.stuck = append(z.stuck, verifBool())
	}
	c.zkClient = z
	var sleeps []time.Duration
	z.sleeps = &sleeps
	sleepAndIncreaseBackoffOverride = func(ctx context.Context, b time.Duration) (time.Duration, error) {
		sleeps = append(sleeps, b)
		return b * 2, nil
	}
	_, addr, err := c.lookupRegion(context.Background(), metaTableName, nil)
	sleepAndIncreaseBackoffOverride = nil
	verifAssert(err == nil && addr == "rs0:1", "the lookup succeeds once ZooKeeper answers")
	// ZooKeeper fails for as long as fewer than ATTEMPTS waits have been made: a client that retries
	// without waiting never gets its answer (step budget); one that waits gets it after ATTEMPTS waits
	// (one more for every answer that arrived after the lookup's own time-out)
	verifAssert(len(sleeps) >= n, "one wait after every failed lookup, whether it failed by an error or by its timeout")
	for i, d := range sleeps {
		verifAssert(d == (16*time.Millisecond)<<uint(i), "the waits follow the schedule")
	}
	verifObserveInt("lookups", z.calls)
	verifReach("paced")
}

// VerifEstablishPacingProbe: a regionserver that accepts connections and drops them at the
// first request, ATTEMPTS times in a row: the region is re-established with waits on the
// schedule (first attempt immediate), not in a tight loop.
func VerifEstablishPacingProbe() {
	c, e := vCluSetup()
	var sleeps []time.Duration
	sleepAndIncreaseBackoffOverride = func(ctx context.Context, b time.Duration) (time.Duration, error) {
		sleeps = append(sleeps, b)
		if b == 0 {
			return backoffStart, nil
		}
		return b * 2, nil
	}
	e.probeDead = verifParam("ATTEMPTS")
	reg := vMkRegion(0, 1, nil, nil)
	c.regions.put(reg)
	reg.MarkUnavailable()
	c.establishRegion(reg, "")
	verifQuiesce()
	sleepAndIncreaseBackoffOverride = nil
	verifAssert(!reg.IsUnavailable(), "the region comes online once a connection survives its first request")
	verifAssert(len(sleeps) == verifParam("ATTEMPTS")+1, "one wait request per attempt")
	for i, d := range sleeps {
		if i == 0 {
			verifAssert(d == 0, "the first attempt is immediate")
		} else {
			verifAssert(d == (16*time.Millisecond)<<uint(i-1), "successive attempts are separated by waits on the schedule")
		}
	}
	verifReach("paced")
}

func vRetryLocate2(c *client, ctx context.Context, rpc hrpc.Call) (hrpc.RegionClient, error) {
	if ctx.Err() != nil {
		return nil, ctx.Err()
	}
	rpc.SetRegion(vRetryReg)
	return vRetryEnv2, nil
}
