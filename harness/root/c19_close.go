package gohbase

import (
	"context"
	"time"

	"github.com/tsuna/gohbase/hrpc"
	"google.golang.org/protobuf/proto"
)

// C19 — Close is terminal and leaves nothing running.
// Real code: (*client).Close, clientRegionCache.closeAll, getRegionAndClientForRPC, SendRPC,
// reestablishRegion, establishRegion, isRegionEstablished, clientDown, findRegion.
// Scripted hbase:meta (lookupRegion cut), fake region clients.

// VerifCloseRace: Close issued at any moment (every interleaving within the delay bound)
// relative to a request that waits for a region whose establisher is before / in / after its
// lookup, dial or probe.
func VerifCloseRace() {
	c, e := vCluSetup()
	e.zkLike = verifBool()
	known := verifBool()
	reg := vMkRegion(0, 1, nil, nil)
	if verifParam("ONLINE") == 1 {
		// the region is cached and online; the script may make it fail and be replaced
		known = false
		c.regions.put(reg)
		reg.SetClient(c.clients.put("rs0:1", reg, func() hrpc.RegionClient {
			rc := e.factory("rs0:1", "", 0, 0, "", 0, nil, nil, nil)
			rc.(*vCluRC).dialled = true
			return rc
		}))
	}
	if known {
		// the region is cached and in the middle of an outage, its establisher running
		c.regions.put(reg)
		reg.MarkUnavailable()
		addr := ""
		if verifBool() {
			addr = "rs0:1" // the establisher already holds a looked-up address
		}
		go c.establishRegion(reg, addr)
	}
	fin := make(chan struct{}, 2)
	var r1 vUserResult
	go vUserGet(c, context.Background(), "k", &r1, fin)
	closed := make(chan struct{})
	closed2 := make(chan struct{})
	openAfterClose := false
	go func() {
		c.Close()
		c.Close() // closing twice is harmless
		e.closed = true
		close(closed)
	}()
	go func() {
		// a second, overlapping Close: when it returns the client is closed as well
		c.Close()
		for _, rc := range e.clients {
			if rc.closed == 0 && !rc.dead && rc.dialled {
				openAfterClose = true
			}
		}
		close(closed2)
	}()
	<-fin
	<-closed
	<-closed2
	verifQuiesce()
	verifAssert(!openAfterClose, "when an overlapping Close returns, every connection that was open is closed")

	verifAssert(r1.done, "a request in flight returns")
	verifAssert(r1.err == nil || r1.err == ErrClientClosed || (e.tableGone && r1.err == TableNotFound),
		"it succeeds or reports that the client is closed (or that the table is gone, if the script removed it)")
	for _, rc := range e.clients {
		// a region client that failed by itself (dial failure, server error) has closed its
		// own connection, as region.(*client).fail does
		verifAssert(rc.closed > 0 || rc.dead, "every regionserver connection the client holds is closed")
	}
	verifAssert(verifGoroutines() == 0, "no goroutine is left behind")
	// later calls fail promptly
	var r2 vUserResult
	vUserGet(c, context.Background(), "k", &r2, nil)
	verifAssert(r2.done && r2.err == ErrClientClosed, "a call after Close returns the client-closed error")
	var r3 vUserResult
	vUserGet(c, context.Background(), "zzz", &r3, nil)
	verifAssert(r3.done && r3.err == ErrClientClosed, "a call for an unknown region after Close returns the client-closed error")
	b, _ := hrpc.NewPut(context.Background(), []byte("t"), []byte("k"), map[string]map[string][]byte{"f": {"q": []byte("v")}})
	res, ok := c.SendBatch(context.Background(), []hrpc.Call{b})
	verifAssert(!ok && res[0].Error == ErrClientClosed, "a batch after Close returns the client-closed error")
	verifQuiesce()
	for _, rc := range e.clients {
		verifAssert(rc.closed > 0 || rc.dead, "no connection is opened after Close")
	}
	verifAssert(verifGoroutines() == 0, "no goroutine is left behind by calls after Close")
	sleepAndIncreaseBackoffOverride = nil
	verifReach("closed")
}

// vClosableRPC is the client as a scanner sees it: after Close every call returns the
// client-closed error (that the real client does so is what VerifCloseRace establishes).
type vClosableRPC struct {
	h      *vHBase
	closed bool
	after  int // calls made after Close
}

func (v *vClosableRPC) SendRPC(rpc hrpc.Call) (proto.Message, error) {
	if v.closed {
		v.after++
		return nil, ErrClientClosed
	}
	return v.h.SendRPC(rpc)
}

// VerifCloseWithRenewingScanner: a scanner that renews its lease in the background sits in the
// middle of a region when the client is closed. Its renewer stops at the first renewal that is
// refused: no goroutine of the client's is left running and the closed client is not called
// again and again.
func VerifCloseWithRenewingScanner() {
	verifFreezeTime(true)
	h := &vHBase{maxResp: 0}
	h.rows = []vRow{{key: []byte("a"), ncells: 1}, {key: []byte("b"), ncells: 1}, {key: []byte("c"), ncells: 1}}
	h.regs = []hrpc.RegionInfo{vMkRegion(0, 1, nil, nil)}
	rc := &vClosableRPC{h: h}
	ctx, cancel := context.WithCancel(context.Background())
	scan, err := hrpc.NewScanRange(ctx, []byte("t"), nil, nil, hrpc.NumberOfRows(1), hrpc.RenewInterval(20*time.Millisecond))
	if err != nil {
		panic(err)
	}
	sc := newScanner(rc, scan, vLogger())
	r, err := sc.Next()
	verifAssert(err == nil && r != nil, "the first row arrives")
	verifAssert(verifGoroutines() == 1, "the lease renewer is running")
	rc.closed = true // client.Close()
	verifFreezeTime(false)
	if verifNative() {
		time.Sleep(90 * time.Millisecond) // several renew intervals
	}
	verifQuiesce()
	verifAssert(rc.after <= 1, "the closed client is called at most once more by the renewer")
	verifAssert(verifGoroutines() == 0, "no goroutine is left behind once the renewer has noticed Close")
	cancel()
	verifQuiesce()
	verifReach("renewer-stopped")
}
