package gohbase

import (
	"context"
	"errors"
	"time"

	"github.com/tsuna/gohbase/hrpc"
	"github.com/tsuna/gohbase/pb"
	"github.com/tsuna/gohbase/region"
)

// C07 / C12 (and the batch parts of C17) — SendBatch result bookkeeping and send discipline.
// Real code: SendBatch, findClients, waitForCompletion, handleResultError, clientDown,
// clientRegionCache.clientDown, reestablishRegion, hrpc.CanBatch, hrpc.NewPut, region.NewInfo,
// MarkUnavailable. Cut: (*client).getRegionAndClientForRPC -> vBatchLocate (job stub) — the
// location step can fail or be cancelled per call per round; the repository's own test hooks
// sleepAndIncreaseBackoffOverride / establishRegionOverride.

const (
	oSuccess = iota
	oFatal
	oRetryLater // region.RetryableError
	oNotServing // region.NotServingRegionError
	oConnDead   // region.ServerError
	oSilent     // no answer (only explored together with a cancellation)
)

type vBatchCall struct {
	call      hrpc.Call
	reg       int
	queued    int // times handed to a region client
	lastOut   int // last outcome delivered, -1 none
	lastMsg   *pb.MutateResponse
	lastErr   error
	succeeded bool
	lookupErr error // this call's own re-location error, if that was the last thing that happened to it
	order     []int // rounds in which it was queued
}

type vBatchEnv struct {
	calls     []*vBatchCall
	regs      []hrpc.RegionInfo
	clients   []*vBatchRC
	regSrv    []int // region -> server
	round     int
	backoffs  int
	cancel    context.CancelFunc
	ownCancel context.CancelFunc // cancels the context that one call of the batch has of its own
	yield     bool               // the location step is a scheduling point
	few       bool               // outcomes limited to success / fatal / retry-later
	maxTries  int
	violated  string
}

var vB *vBatchEnv

type vBatchRC struct {
	vRegionClient
	env *vBatchEnv
	id  int
}

func (e *vBatchEnv) find(c hrpc.Call) *vBatchCall {
	for _, x := range e.calls {
		if x.call == c {
			return x
		}
	}
	verifFail("a call that is not part of the batch was queued")
	return nil
}

func (e *vBatchEnv) index(c hrpc.Call) int {
	for i, x := range e.calls {
		if x.call == c {
			return i
		}
	}
	return -1
}

// QueueBatch answers every call with an arbitrary outcome (bounded number of attempts).
func (r *vBatchRC) QueueBatch(ctx context.Context, rpcs []hrpc.Call) {
	e := r.env
	lastIdx := map[int]int{}
	for _, c := range rpcs {
		bc := e.find(c)
		i := e.index(c)
		// C12: per region, calls are presented in batch order
		if prev, ok := lastIdx[bc.reg]; ok && prev > i && e.violated == "" {
			e.violated = "calls of one region are presented to the server out of batch order"
		}
		lastIdx[bc.reg] = i
		if e.regSrv[bc.reg] != r.id && e.violated == "" {
			e.violated = "a call was sent to a server that does not host its region"
		}
		if bc.succeeded && e.violated == "" {
			e.violated = "a call whose success has been received was sent again"
		}
		if bc.queued > 0 && !(bc.lastOut == oRetryLater || bc.lastOut == oNotServing || bc.lastOut == oConnDead) && e.violated == "" {
			e.violated = "a call was sent again although its last outcome was not retryable"
		}
		bc.queued++
		bc.lookupErr = nil
		bc.order = append(bc.order, e.round)
		// the outcome is a symbolic variable: the solver decides which classes matter where
		var o int
		if bc.queued >= e.maxTries {
			o = verifInt(0, 1) // last permitted attempt: success or fatal
		} else if e.few {
			o = verifInt(0, 2) // success, fatal or retry-later
		} else if e.cancel != nil {
			o = verifInt(0, 5)
		} else {
			o = verifInt(0, 4)
		}
		bc.lastOut = o
		switch o {
		case oSuccess:
			bc.lastMsg, bc.lastErr, bc.succeeded = &pb.MutateResponse{}, nil, true
			c.ResultChan() <- hrpc.RPCResult{Msg: bc.lastMsg}
		case oFatal:
			bc.lastErr = errors.New("verif: application exception")
			c.ResultChan() <- hrpc.RPCResult{Error: bc.lastErr}
		case oRetryLater:
			bc.lastErr = region.RetryableError{}
			c.ResultChan() <- hrpc.RPCResult{Error: bc.lastErr}
		case oNotServing:
			bc.lastErr = region.NotServingRegionError{}
			c.ResultChan() <- hrpc.RPCResult{Error: bc.lastErr}
		case oConnDead:
			bc.lastErr = region.ServerError{}
			c.ResultChan() <- hrpc.RPCResult{Error: bc.lastErr}
		case oSilent:
			bc.lastErr = nil
		}
	}
	if e.ownCancel != nil && verifBool() {
		e.ownCancel() // one call's own context ends while the batch is with the servers
		e.ownCancel = nil
	}
	// the context may be cancelled while results are (partly) ready
	if e.cancel != nil && verifBool() {
		e.cancel()
		e.cancel = nil
	} else if e.cancel != nil {
		// a silent server is only explored together with a cancellation (otherwise SendBatch
		// legitimately waits): cancel now if somebody was left without an answer
		for _, c := range rpcs {
			if e.find(c).lastOut == oSilent {
				e.cancel()
				e.cancel = nil
				break
			}
		}
	}
}

var vErrLookup = errors.New("verif: cannot re-locate region")

// vBatchLocate replaces (*client).getRegionAndClientForRPC.
func vBatchLocate(c *client, ctx context.Context, rpc hrpc.Call) (hrpc.RegionClient, error) {
	e := vB
	bc := e.find(rpc)
	if e.yield {
		verifYield() // looking a region up takes time: goroutines started by context.AfterFunc run
	}
	if ctx.Err() != nil {
		bc.lookupErr = ctx.Err()
		return nil, ctx.Err()
	}
	if verifParam("LOOKUPFAIL") == 1 && bc.queued > 0 && verifBool() {
		bc.lookupErr = vErrLookup // re-location in a retry round fails for this call
		return nil, vErrLookup
	}
	rpc.SetRegion(e.regs[bc.reg])
	return e.clients[e.regSrv[bc.reg]], nil
}

func vBatchSetup() (*client, *vBatchEnv, context.Context) {
	e := &vBatchEnv{maxTries: verifParam("TRIES")}
	vB = e
	c := vNewRootClient()
	sleepAndIncreaseBackoffOverride = func(ctx context.Context, b time.Duration) (time.Duration, error) {
		e.backoffs++
		e.round++
		if e.cancel != nil && verifBool() {
			e.cancel() // the context is cancelled while the batch sleeps before a retry
			e.cancel = nil
		}
		if ctx.Err() != nil {
			return 0, ctx.Err()
		}
		return b * 2, nil
	}
	establishRegionOverride = func(reg hrpc.RegionInfo, addr string) {}
	e.regs = []hrpc.RegionInfo{vMkRegion(0, 1, nil, []byte("m")), vMkRegion(0, 2, []byte("m"), nil)}
	e.clients = []*vBatchRC{{env: e, id: 0}, {env: e, id: 1}}
	e.clients[0].addr, e.clients[1].addr = "rs0:1", "rs1:1"
	if verifBool() {
		e.regSrv = []int{0, 1}
	} else {
		e.regSrv = []int{0, 0}
	}
	for i, r := range e.regs {
		rc := e.clients[e.regSrv[i]]
		r.SetClient(c.clients.put(rc.addr, r, func() hrpc.RegionClient { return rc }))
	}
	ctx := context.Background()
	if verifParam("CANCEL") == 1 {
		var cancel context.CancelFunc
		ctx, cancel = context.WithCancel(ctx)
		e.cancel = cancel
	}
	n := 1 + verifChoose(verifParam("N"))
	for i := 0; i < n; i++ {
		p, err := hrpc.NewPut(ctx, []byte("t"), []byte{byte('a' + i)}, map[string]map[string][]byte{"f": {"q": []byte("v")}})
		if err != nil {
			panic(err)
		}
		e.calls = append(e.calls, &vBatchCall{call: p, reg: verifInt(0, 1), lastOut: -1})
	}
	return c, e, ctx
}

// VerifSendBatch: valid batches.
func VerifSendBatch() {
	c, e, ctx := vBatchSetup()
	batch := make([]hrpc.Call, len(e.calls))
	for i, bc := range e.calls {
		batch[i] = bc.call
	}
	res, allOK := c.SendBatch(ctx, batch)
	verifQuiesce()
	sleepAndIncreaseBackoffOverride, establishRegionOverride = nil, nil

	if verifParam("PROP") != 7 {
		// C12
		verifAssert(e.violated != "calls of one region are presented to the server out of batch order", "calls of one region are presented to the server in batch order")
		verifAssert(e.violated != "a call was sent to a server that does not host its region", "every call is sent to the server hosting its region")
		verifAssert(e.violated != "a call whose success has been received was sent again", "a call whose success has been received is never sent again")
		verifAssert(e.violated != "a call was sent again although its last outcome was not retryable", "only calls that failed with a retryable class are sent again")
		for _, bc := range e.calls {
			verifAssert(bc.queued >= 1 || ctx.Err() != nil || bc.lookupErr != nil, "every call of a valid batch is sent")
		}
		verifReach("returned")
	}
	if verifParam("PROP") == 12 {
		return
	}
	verifAssert(len(res) == len(e.calls), "one result per call")
	allNil := true
	for i, bc := range e.calls {
		r := res[i]
		if r.Error != nil {
			allNil = false
		}
		verifAssert(r.Msg != nil || r.Error != nil, "every call ends with a response or an error")
		if bc.succeeded {
			verifAssert(r.Error == nil, "a call that succeeded keeps a nil error")
			verifAssert(r.Msg == hrpc.RPCResult{Msg: bc.lastMsg}.Msg, "a call that succeeded keeps its own response")
			continue
		}
		verifAssert(r.Error != nil, "a call that did not succeed ends with an error")
		switch {
		case bc.lookupErr != nil:
			verifAssert(r.Error == bc.lookupErr, "a call that could not be re-located carries its own location error")
		case bc.lastOut == oSilent || bc.lastOut == -1:
			verifAssert(r.Error == context.Canceled || r.Error == NotExecutedError, "an unanswered call carries the context error")
		case ctx.Err() != nil:
			verifAssert(r.Error == bc.lastErr || r.Error == context.Canceled, "a failed call carries its own last error or the context error")
		default:
			verifAssert(r.Error == bc.lastErr, "a failed call carries its own last error")
		}
	}
	verifAssert(allOK == allNil, "the success flag is true exactly when every result has a nil error")
	verifObserveBool("allOK", allOK)
	verifReach("returned")
}

// VerifSendBatchOwnContexts: one call of the batch has a context of its own, which ends before
// the batch is sent, while it is with the servers, or never; the batch context lives. None of
// the other calls ends with a context error, and one that succeeded keeps its nil error.
func VerifSendBatchOwnContexts() {
	c, e, ctx := vBatchSetup()
	e.yield = true
	e.few = true
	cctx, ccancel := context.WithCancel(context.Background())
	own := verifChoose(len(e.calls))
	p, err := hrpc.NewPut(cctx, []byte("t"), []byte{byte('a' + own)}, map[string]map[string][]byte{"f": {"q": []byte("v")}})
	if err != nil {
		panic(err)
	}
	e.calls[own].call = p
	switch verifChoose(3) {
	case 0:
		ccancel()
		verifReach("own-context-done-before")
	case 1:
		e.ownCancel = ccancel
	}
	batch := make([]hrpc.Call, len(e.calls))
	for i, bc := range e.calls {
		batch[i] = bc.call
	}
	res, allOK := c.SendBatch(ctx, batch)
	verifQuiesce()
	sleepAndIncreaseBackoffOverride, establishRegionOverride = nil, nil
	ccancel()
	verifAssert(len(res) == len(e.calls), "one result per call")
	allNil := true
	for _, r := range res {
		if r.Error != nil {
			allNil = false
		}
	}
	verifAssert(allOK == allNil, "the success flag is true exactly when every result has a nil error")
	for i, bc := range e.calls {
		r := res[i]
		verifAssert(r.Msg != nil || r.Error != nil, "every call ends with a response or an error")
		if i == own {
			continue
		}
		// (NotExecutedError is legitimate: a batch of which one call cannot be located is not sent)
		verifAssert(r.Error != context.Canceled, "a call does not end with the error of another call's own context")
		if bc.succeeded {
			verifAssert(r.Error == nil, "a call that succeeded keeps a nil error")
		}
	}
	verifReach("returned")
}

type vUnbatchable struct{ hrpc.Call }

// VerifSendBatchInvalid: a batch that mixes tables, repeats a call or contains a non-batchable
// call is rejected as a whole: nothing is sent and every slot carries an error.
func VerifSendBatchInvalid() {
	c, e, ctx := vBatchSetup()
	batch := make([]hrpc.Call, len(e.calls))
	for i, bc := range e.calls {
		batch[i] = bc.call
	}
	pos := verifChoose(len(batch) + 1)
	var bad hrpc.Call
	switch verifChoose(3) {
	case 0:
		p, _ := hrpc.NewPut(ctx, []byte("other"), []byte("k"), map[string]map[string][]byte{"f": {"q": []byte("v")}})
		bad = p
	case 1:
		bad = batch[verifChoose(len(batch))]
	case 2:
		g, _ := hrpc.NewGet(ctx, []byte("t"), []byte("k"), hrpc.SkipBatch())
		bad = g
	}
	batch = append(batch[:pos], append([]hrpc.Call{bad}, batch[pos:]...)...)
	res, allOK := c.SendBatch(ctx, batch)
	sleepAndIncreaseBackoffOverride, establishRegionOverride = nil, nil
	verifAssert(!allOK, "an invalid batch is not OK")
	verifAssert(len(res) == len(batch), "one result per call")
	for i := range res {
		verifAssert(res[i].Error != nil && res[i].Msg == nil, "every slot of a rejected batch carries an error")
	}
	for _, bc := range e.calls {
		verifAssert(bc.queued == 0, "nothing of a rejected batch is sent")
	}
	verifReach("rejected")
}
