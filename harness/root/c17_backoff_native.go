package gohbase

import (
	"context"

	"github.com/tsuna/gohbase/hrpc"
)

// Native counterpart of the engine stub (*client).getRegionAndClientForRPC => vRetryLocate.
func (c *client) getRegionAndClientForRPC(ctx context.Context, rpc hrpc.Call) (hrpc.RegionClient, error) {
	if vRetryEnv2 != nil {
		return vRetryLocate2(c, ctx, rpc)
	}
	return vRetryLocate(c, ctx, rpc)
}
