package gohbase

import (
	"context"

	"github.com/tsuna/gohbase/hrpc"
)

// Native counterpart of the engine stub (*client).getRegionAndClientForRPC => vRetryLocate.
func (c *client) getRegionAndClientForRPC(ctx context.Context, rpc hrpc.Call) (hrpc.RegionClient, error) {
	return vRetryLocate(c, ctx, rpc)
}
