package gohbase

import (
	"github.com/tsuna/gohbase/hrpc"
	"google.golang.org/protobuf/proto"
)

// Native counterpart of the engine stub (*client).SendRPC => vMetaSendRPC.
func (c *client) SendRPC(rpc hrpc.Call) (proto.Message, error) { return vMetaSendRPC(c, rpc) }
