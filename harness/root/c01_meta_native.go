package gohbase

import (
	"github.com/tsuna/gohbase/hrpc"
	"google.golang.org/protobuf/proto"
)

// Native counterpart of the engine stub (*client).SendRPC => vMetaSendRPC.
// (a property's native build cuts per property; jobs that do not script hbase:meta run the real one)
func (c *client) SendRPC(rpc hrpc.Call) (proto.Message, error) {
	if vMeta == nil {
		return c.SendRPCOrig(rpc)
	}
	return vMetaSendRPC(c, rpc)
}
