package gohbase

import (
	"bytes"
	"context"

	"github.com/tsuna/gohbase/hrpc"
	"github.com/tsuna/gohbase/pb"
	"github.com/tsuna/gohbase/region"
	"modernc.org/b/v2"
)

// C01 — requests are routed to the region that owns the row key.
// Real code: getRegionFromCache, keyRegionCache.get/put, createRegionSearchKey,
// fullyQualifiedTable, region.Compare, the B+tree, getRegionForRpc, getRegionAndClientForRPC
// (fast path), metaLookup, region.ParseRegionInfo / infoFromCell, (*base).regionSpecifier, ToProto.

func vNewRootClient() *client {
	return &client{
		clientType:     region.RegionClient,
		regions:        keyRegionCache{logger: vLogger(), regions: b.TreeNew[[]byte, hrpc.RegionInfo](region.Compare)},
		clients:        clientRegionCache{logger: vLogger(), regions: map[hrpc.RegionClient]map[hrpc.RegionInfo]struct{}{}},
		metaRegionInfo: region.NewInfo(0, []byte("hbase"), []byte("meta"), []byte("hbase:meta,,1"), nil, nil),
		done:           make(chan struct{}),
		logger:         vLogger(),
	}
}

// vContains: the containment oracle.
func vContains(r hrpc.RegionInfo, rt int, table int, key []byte) bool {
	if rt != table {
		return false
	}
	if bytes.Compare(key, r.StartKey()) < 0 {
		return false
	}
	return len(r.StopKey()) == 0 || bytes.Compare(key, r.StopKey()) < 0
}

// VerifRouteFromCache: for every valid cache content (regions discovered in any order, through
// the real put) and every (table, key): the cache returns the unique region containing the key,
// and nothing — so that hbase:meta is consulted — when no cached region contains it.
func VerifRouteFromCache() {
	c := vNewRootClient()
	var regs []vCached
	k := verifParam("K")
	for i := 0; i < k; i++ {
		r, ti := vSymRegion()
		for _, o := range regs {
			verifAssume(!vOverlap(r, ti, o.r, o.ti))
			verifAssume(!bytes.Equal(r.Name(), o.r.Name()))
		}
		regs = append(regs, vCached{r, ti})
		_, replaced := c.regions.put(r)
		verifAssert(replaced, "a region that overlaps nothing is cached")
	}
	table := vTableAt(verifChoose(verifParam("T")))
	key := verifBytes(verifParam("KEYL"))

	got := c.getRegionFromCache([]byte(vTables[table].fq), key)

	var want hrpc.RegionInfo
	for _, o := range regs {
		if vContains(o.r, o.ti, table, key) {
			verifAssert(want == nil, "oracle: at most one cached region contains a key")
			want = o.r
		}
	}
	if want != nil {
		verifReach("hit")
	} else {
		verifReach("miss")
	}
	verifObserveBool("hit", got != nil)
	verifAssert(got == want, "the cache returns exactly the region whose range contains the key, or nothing")
}

// VerifRouteNamespaceTwin: VerifRouteFromCache over the tables "n:t" (namespace n) and "n_t"
// (default namespace): names of equal length that differ only at the namespace separator.
func VerifRouteNamespaceTwin() {
	vTableSel = []int{2, 3}
	VerifRouteFromCache()
}

// VerifRouteNamespaceSuffix: VerifRouteFromCache over the tables "n:t" and "n:xt": one namespace,
// one qualifier a proper suffix of the other (a key of "n:xt" below every cached region of it
// finds the last region of "n:t" as its predecessor in the cache).
func VerifRouteNamespaceSuffix() {
	vTableSel = []int{2, 4}
	VerifRouteFromCache()
}

// VerifRouteConcurrent: two callers look up rows of one table at the same time (the cache is
// read under a read lock, which both hold at once): each gets the region that contains its own
// row, and the lookups do not race on shared state.
func VerifRouteConcurrent() {
	c := vNewRootClient()
	split := verifBytesN(1)
	lo, hi := vMkRegion(0, 1, nil, split), vMkRegion(0, 2, split, nil)
	c.regions.put(lo)
	c.regions.put(hi)
	k1, k2 := verifBytes(1), verifBytes(1)
	var r1, r2 hrpc.RegionInfo
	done := make(chan struct{})
	go func() {
		r1 = c.getRegionFromCache([]byte("t"), k1)
		close(done)
	}()
	r2 = c.getRegionFromCache([]byte("t"), k2)
	<-done
	want := func(k []byte) hrpc.RegionInfo {
		if bytes.Compare(k, split) < 0 {
			return lo
		}
		return hi
	}
	verifAssert(r1 == want(k1), "the first caller gets the region containing its row")
	verifAssert(r2 == want(k2), "the second caller gets the region containing its row")
	verifReach("routed-concurrently")
}

// ---- the fast path of getRegionAndClientForRPC and the addressing of the request ----

type vRegionClient struct {
	addr   string
	queued []hrpc.Call
}

func (r *vRegionClient) Dial(context.Context) error { return nil }
func (r *vRegionClient) Close()                     {}
func (r *vRegionClient) Addr() string               { return r.addr }
func (r *vRegionClient) String() string             { return r.addr }
func (r *vRegionClient) QueueRPC(c hrpc.Call)       { r.queued = append(r.queued, c) }
func (r *vRegionClient) QueueBatch(ctx context.Context, cs []hrpc.Call) {
	r.queued = append(r.queued, cs...)
}

func vSpecifier(m interface{}) *pb.RegionSpecifier {
	switch r := m.(type) {
	case *pb.GetRequest:
		return r.Region
	case *pb.MutateRequest:
		return r.Region
	case *pb.ScanRequest:
		return r.Region
	}
	return nil
}

// VerifAddressing: two cached, available regions of one table on two servers; a request of
// every single-row kind for an arbitrary key is given the region that contains its key, that
// region's client, and carries that region's name.
func VerifAddressing() {
	c := vNewRootClient()
	split := verifBytes(verifParam("KL"))
	verifAssume(len(split) > 0)
	r1 := vMkRegion(0, 1, nil, split)
	r2 := vMkRegion(0, 2, split, nil)
	rc1, rc2 := &vRegionClient{addr: "rs1:1"}, &vRegionClient{addr: "rs2:1"}
	for _, x := range []struct {
		r  hrpc.RegionInfo
		rc *vRegionClient
	}{{r1, rc1}, {r2, rc2}} {
		_, replaced := c.regions.put(x.r)
		verifAssert(replaced, "region cached")
		x.r.SetClient(c.clients.put(x.rc.addr, x.r, func() hrpc.RegionClient { return x.rc }))
	}
	key := verifBytes(verifParam("KEYL"))
	ctx := context.Background()
	vals := map[string]map[string][]byte{"f": {"q": []byte("v")}}
	var rpc hrpc.Call
	var err error
	switch verifChoose(6) {
	case 0:
		rpc, err = hrpc.NewGet(ctx, []byte("t"), key)
	case 1:
		rpc, err = hrpc.NewPut(ctx, []byte("t"), key, vals)
	case 2:
		rpc, err = hrpc.NewDel(ctx, []byte("t"), key, vals)
	case 3:
		rpc, err = hrpc.NewApp(ctx, []byte("t"), key, vals)
	case 4:
		rpc, err = hrpc.NewInc(ctx, []byte("t"), key, vals)
	case 5:
		var p *hrpc.Mutate
		p, err = hrpc.NewPut(ctx, []byte("t"), key, vals)
		if err == nil {
			rpc, err = hrpc.NewCheckAndPut(p, "f", "q", []byte("old"))
		}
	}
	verifAssert(err == nil, "request constructed")

	rc, err := c.getRegionAndClientForRPC(ctx, rpc)
	verifAssert(err == nil, "a cached, available region is routed without error")
	want, wantRC := r1, rc1
	if bytes.Compare(key, split) >= 0 {
		want, wantRC = r2, rc2
	}
	verifAssert(rpc.Region() == want, "the request is given the region containing its key")
	verifAssert(rc == hrpc.RegionClient(wantRC), "the request goes to that region's regionserver")
	spec := vSpecifier(rpc.ToProto())
	verifAssert(spec != nil && bytes.Equal(spec.Value, want.Name()), "the request carries that region's name")
	verifAssert(spec.GetType() == pb.RegionSpecifier_REGION_NAME, "the region is specified by name")
	verifReach("addressed")
}
