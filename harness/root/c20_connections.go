package gohbase

import (
	"context"
	"net"
	"time"

	"log/slog"

	"github.com/tsuna/gohbase/compression"
	"github.com/tsuna/gohbase/hrpc"
	"github.com/tsuna/gohbase/region"
)

// C20 — one connection per regionserver, shared by all its regions.
// Real code: clientRegionCache.put/del/clientDown, (*client).clientDown, establishRegion,
// isRegionEstablished, sendBlocking, probeKey, reestablishRegion, region availability protocol.

// VerifClientCacheOps: any sequence of put / del / clientDown on the connection cache: a put
// for an address returns the connection the cache holds for that address unless it was
// declared dead, creates one otherwise, and never hands one address the other's connection.
func VerifClientCacheOps() {
	c := vNewRootClient()
	addrs := []string{"rs0:1", "rs1:1"}
	regs := []hrpc.RegionInfo{vMkRegion(0, 1, nil, []byte("g")), vMkRegion(0, 2, []byte("g"), []byte("p")), vMkRegion(0, 3, []byte("p"), nil)}
	live := []hrpc.RegionClient{nil, nil} // model: the connection held per address
	created := 0
	steps := verifParam("STEPS")
	for s := 0; s < steps; s++ {
		switch verifInt(0, 2) {
		case 0:
			a, r := verifInt(0, 1), verifInt(0, 2)
			made := false
			got := c.clients.put(addrs[a], regs[r], func() hrpc.RegionClient {
				made = true
				created++
				return &vRegionClient{addr: addrs[a]}
			})
			regs[r].SetClient(got)
			if live[a] != nil {
				verifAssert(got == live[a] && !made, "a healthy connection to the address is reused")
				verifReach("reused")
			} else {
				verifAssert(made, "a connection is opened only when none is held for the address")
				live[a] = got
			}
			verifAssert(got.Addr() == addrs[a], "the connection belongs to the address asked for")
			verifAssert(live[1-a] == nil || got != live[1-a], "two addresses never share a connection")
		case 1:
			c.clients.del(regs[verifInt(0, 2)]) // forgetting a region does not declare its connection dead
		case 2:
			a := verifInt(0, 1)
			if live[a] != nil {
				down := c.clients.clientDown(live[a])
				for r := range down {
					r.SetClient(nil)
				}
				live[a] = nil
				verifReach("declared-dead")
			}
		}
	}
	verifObserveInt("created", created)
}

// ---- fake cluster for the establisher ----

type vEstRC struct {
	addr   string
	env    *vEstEnv
	dials  int
	closed int
}

type vEstEnv struct {
	made       map[string]int // region clients created per address
	all        []*vEstRC
	probes     int
	retryLater int // the next so many probes are answered "retry later"
}

func (r *vEstRC) Dial(ctx context.Context) error {
	verifYield()
	verifJitter()
	r.dials++
	return nil
}
func (r *vEstRC) Close()         { r.closed++ }
func (r *vEstRC) Addr() string   { return r.addr }
func (r *vEstRC) String() string { return r.addr }
func (r *vEstRC) QueueRPC(c hrpc.Call) {
	verifYield()
	verifJitter()
	r.env.probes++
	if r.env.retryLater > 0 {
		// the region is still opening / the call queue is full: a healthy connection says "retry later"
		r.env.retryLater--
		c.ResultChan() <- hrpc.RPCResult{Error: region.RetryableError{}}
		return
	}
	c.ResultChan() <- hrpc.RPCResult{} // the probe is answered: region online
}
func (r *vEstRC) QueueBatch(ctx context.Context, cs []hrpc.Call) {}

func (e *vEstEnv) factory(addr string, ctype region.ClientType, queueSize int, flushInterval time.Duration,
	effectiveUser string, readTimeout time.Duration, codec compression.Codec,
	dialer func(ctx context.Context, network, addr string) (net.Conn, error), log *slog.Logger) hrpc.RegionClient {
	e.made[addr]++
	rc := &vEstRC{addr: addr, env: e}
	e.all = append(e.all, rc)
	return rc
}

// VerifEstablishShared: R regions hosted at one address are established concurrently (every
// interleaving within the bound): one connection is created for the address, every region ends
// up available with that connection; a region discovered later reuses it.
func VerifEstablishShared() {
	c := vNewRootClient()
	env := &vEstEnv{made: map[string]int{}}
	c.newRegionClientFn = env.factory
	c.regionLookupTimeout = time.Second
	regs := []hrpc.RegionInfo{vMkRegion(0, 1, nil, []byte("g")), vMkRegion(0, 2, []byte("g"), []byte("p")), vMkRegion(0, 3, []byte("p"), nil)}
	n := verifParam("R")
	done := make(chan struct{}, n)
	for i := 0; i < n; i++ {
		r := regs[i]
		r.MarkUnavailable()
		go func() {
			c.establishRegion(r, "rs0:1")
			done <- struct{}{}
		}()
	}
	for i := 0; i < n; i++ {
		<-done
	}
	verifAssert(env.made["rs0:1"] == 1, "the regionserver is given one connection however many of its regions are first used concurrently")
	for i := 0; i < n; i++ {
		verifAssert(!regs[i].IsUnavailable(), "every region becomes available")
		verifAssert(regs[i].Client() == hrpc.RegionClient(env.all[0]), "every region uses the shared connection")
	}
	// a region discovered later, on the same server
	late := regs[2]
	if n < 3 {
		late.MarkUnavailable()
		c.establishRegion(late, "rs0:1")
		verifAssert(env.made["rs0:1"] == 1 && late.Client() == hrpc.RegionClient(env.all[0]), "a healthy connection is reused for a region discovered later")
	}
	// another server gets its own
	other := vMkRegion(1, 4, nil, nil)
	other.MarkUnavailable()
	c.establishRegion(other, "rs1:1")
	verifAssert(env.made["rs1:1"] == 1 && other.Client() != regs[0].Client(), "another address gets its own connection")
	verifReach("established")
}

type vLateRC struct {
	vRegionClient
	onBatch func(cs []hrpc.Call)
}

func (r *vLateRC) QueueBatch(ctx context.Context, cs []hrpc.Call) { r.onBatch(cs) }

// VerifLateFailureReport: a batch call was sent over connection #1; #1 dies, another caller
// notices first and the region is re-established on a fresh connection #2; only then does
// SendBatch process the failure of its own call. The late report concerns #1: the healthy #2
// stays the connection of that regionserver and no third one is opened.
func VerifLateFailureReport() {
	c := vNewRootClient()
	reg := vMkRegion(0, 1, nil, nil)
	c.regions.put(reg)
	made := 0
	var conns []*vLateRC
	factory := func() hrpc.RegionClient {
		made++
		rc := &vLateRC{}
		rc.addr = "rs0:1"
		n := made
		rc.onBatch = func(cs []hrpc.Call) {
			for _, cl := range cs {
				if n == 1 {
					// connection #1 died; somebody else already declared it dead and the
					// region was re-established on a new connection
					down := c.clients.clientDown(conns[0])
					for r := range down {
						r.SetClient(nil)
					}
					reg.SetClient(c.clients.put("rs0:1", reg, func() hrpc.RegionClient { return conns[len(conns)-1] }))
					cl.ResultChan() <- hrpc.RPCResult{Error: region.ServerError{}}
				} else {
					cl.ResultChan() <- hrpc.RPCResult{}
				}
			}
		}
		conns = append(conns, rc)
		return rc
	}
	establishRegionOverride = func(r hrpc.RegionInfo, addr string) {
		r.SetClient(c.clients.put("rs0:1", r, factory))
		r.MarkAvailable()
	}
	sleepAndIncreaseBackoffOverride = func(ctx context.Context, b time.Duration) (time.Duration, error) { return b, nil }
	first := factory()
	reg.SetClient(c.clients.put("rs0:1", reg, func() hrpc.RegionClient { return first }))
	factory() // connection #2 exists by the time #1's failure is handled (see onBatch of #1)
	p, _ := hrpc.NewPut(context.Background(), []byte("t"), []byte("k"), map[string]map[string][]byte{"f": {"q": []byte("v")}})
	res, ok := c.SendBatch(context.Background(), []hrpc.Call{p})
	verifQuiesce()
	establishRegionOverride, sleepAndIncreaseBackoffOverride = nil, nil
	verifAssert(ok && res[0].Error == nil, "the call succeeds on the replacement connection")
	verifAssert(made == 2, "no further connection is opened: the failure report concerned the connection that was already replaced")
	verifAssert(reg.Client() == hrpc.RegionClient(conns[1]), "the healthy replacement stays the region's connection")
	verifReach("late-report")
}

// VerifSharedClientSpellings: two regions hosted at the same address - whatever its spelling
// (upper case, IPv6 brackets, blanks, trailing dot) - get one real region client: the client
// cache asked twice for the same address string builds one client and hands it out twice.
// (Both sites are real: region.NewClient and clientRegionCache.put; nothing is dialled.)
func VerifSharedClientSpellings() {
	c := vNewRootClient()
	addr := []string{"rs1:16020", "RS-1.Example.COM:16020", "[::1]:16020", "10.0.0.1:16020", " rs1:16020 ", "rs1.:16020"}[verifChoose(6)]
	made := 0
	mk := func() hrpc.RegionClient {
		made++
		return region.NewClient(addr, region.RegionClient, 2, 0, "user", 0, nil, nil, vLogger())
	}
	ra, rb := vMkRegion(0, 1, nil, []byte("m")), vMkRegion(0, 2, []byte("m"), nil)
	c1 := c.clients.put(addr, ra, mk)
	c2 := c.clients.put(addr, rb, mk)
	verifAssert(c1 == c2 && made == 1, "two regions at one address share one region client")
	other := c.clients.put("rs2:16020", vMkRegion(1, 3, nil, nil), func() hrpc.RegionClient {
		return region.NewClient("rs2:16020", region.RegionClient, 2, 0, "user", 0, nil, nil, vLogger())
	})
	verifAssert(other != c1, "another address gets its own region client")
	verifReach("shared")
}
