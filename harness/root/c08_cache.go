package gohbase

import (
	"bytes"
	"io"

	"github.com/tsuna/gohbase/hrpc"
	"github.com/tsuna/gohbase/region"
	"modernc.org/b/v2"
)

// C08 — the location cache never holds overlapping regions; the newest wins.
// One inductive step from an arbitrary valid cache state: real code keyRegionCache.put / del /
// getOverlaps / get, isRegionOverlap, createRegionSearchKey, fullyQualifiedTable,
// region.NewInfo / Compare / MarkDead, and the real B+tree (modernc.org/b/v2).

var vTables = []struct{ ns, table, fq string }{
	{"", "t", "t"},
	{"", "tt", "tt"},
	{"n", "t", "n:t"},
	{"", "n_t", "n_t"}, // same length as "n:t", differs only where the namespace separator is
	{"n", "xt", "n:xt"}, // same namespace as "n:t"; its qualifier ends with the other's and sorts after it
}

// vTableSel: which of vTables the first tables of a job are (default: in order).
var vTableSel []int

func vTableAt(i int) int {
	if i < len(vTableSel) {
		return vTableSel[i]
	}
	return i
}

// vMkRegion builds a region of table #ti with a one-digit id and the given range.
func vMkRegion(ti int, id uint64, start, stop []byte) hrpc.RegionInfo {
	t := vTables[ti]
	name := append([]byte(t.fq+","), start...)
	name = append(name, ',', byte('0'+id))
	var ns []byte
	if t.ns != "" {
		ns = []byte(t.ns)
	}
	return region.NewInfo(id, ns, []byte(t.table), name, start, stop)
}

// vNamespaced: the two tables of the harness are "t" and "n:t" instead of "t" and "tt".
var vNamespaced bool

// VerifCachePutNamespace is VerifCachePut over two tables that differ in their namespace only.
func VerifCachePutNamespace() {
	vNamespaced = true
	VerifCachePut()
}

// vSymRegion: an arbitrary well-formed region: table among the first T tables, start/stop keys
// of at most KL bytes (empty stop = unbounded), start < stop, one-digit id.
func vSymRegion() (hrpc.RegionInfo, int) {
	ti := verifChoose(verifParam("T"))
	if vNamespaced && ti == 1 {
		ti = 2 // tables "t" and "n:t": the same bare table name in two namespaces
	}
	ti = vTableAt(ti)
	start := verifBytes(verifParam("KL"))
	stop := verifBytes(verifParam("KL"))
	id := verifInt(1, 9)
	verifAssume(len(stop) == 0 || bytes.Compare(start, stop) < 0)
	return vMkRegion(ti, uint64(id), start, stop), ti
}

// vOverlap is the interval-intersection oracle (same table, half-open ranges, empty stop = +inf).
func vOverlap(a hrpc.RegionInfo, ta int, b hrpc.RegionInfo, tb int) bool {
	if ta != tb {
		return false
	}
	if len(b.StopKey()) != 0 && bytes.Compare(a.StartKey(), b.StopKey()) >= 0 {
		return false
	}
	if len(a.StopKey()) != 0 && bytes.Compare(b.StartKey(), a.StopKey()) >= 0 {
		return false
	}
	return true
}

type vCached struct {
	r  hrpc.RegionInfo
	ti int
}

// vCacheState builds a cache holding K arbitrary regions that satisfy the representation
// invariant: distinct names, no two regions of one table intersect.
func vCacheState() (*keyRegionCache, []vCached) {
	c := &keyRegionCache{logger: vLogger(), regions: b.TreeNew[[]byte, hrpc.RegionInfo](region.Compare)}
	var regs []vCached
	k := verifParam("K")
	for i := 0; i < k; i++ {
		r, ti := vSymRegion()
		for _, o := range regs {
			verifAssume(!vOverlap(r, ti, o.r, o.ti))
			verifAssume(!bytes.Equal(r.Name(), o.r.Name()))
		}
		regs = append(regs, vCached{r, ti})
		c.regions.Set(r.Name(), r)
	}
	return c, regs
}

func vTreeContents(c *keyRegionCache) []hrpc.RegionInfo {
	var out []hrpc.RegionInfo
	enum, err := c.regions.SeekFirst()
	if err != nil {
		return nil
	}
	for {
		_, v, err := enum.Next()
		if err == io.EOF {
			break
		}
		out = append(out, v)
	}
	enum.Close()
	return out
}

func vHas(list []hrpc.RegionInfo, r hrpc.RegionInfo) bool {
	for _, x := range list {
		if x == r {
			return true
		}
	}
	return false
}

func VerifCachePut() {
	c, regs := vCacheState()
	n, nt := vSymRegion()
	same := -1
	for i, o := range regs {
		if bytes.Equal(n.Name(), o.r.Name()) {
			same = i
		}
	}

	overlaps, replaced := c.put(n)
	after := vTreeContents(c)

	if same >= 0 {
		// discovering a region that is already cached leaves the cache unchanged
		verifReach("already-cached")
		verifAssert(!replaced, "a region already cached by name is not replaced")
		verifAssert(len(after) == len(regs), "cache unchanged when the region is already cached")
		for _, o := range regs {
			verifAssert(vHas(after, o.r), "cache unchanged when the region is already cached")
			verifAssert(o.r.Context().Err() == nil, "nothing is marked dead when the region is already cached")
		}
		return
	}

	var want []hrpc.RegionInfo
	younger := false
	for _, o := range regs {
		if vOverlap(n, nt, o.r, o.ti) {
			want = append(want, o.r)
			if o.r.ID() > n.ID() {
				younger = true
			}
		}
	}
	verifObserveInt("overlapping", len(want))
	verifAssert(replaced == !younger, "the new region wins exactly when nothing it overlaps is newer")
	if replaced {
		verifReach("replaced")
		verifAssert(len(overlaps) == len(want), "exactly the overlapping regions are reported")
		for _, w := range want {
			verifAssert(vHas(overlaps, w), "every overlapping region is reported")
			verifAssert(!vHas(after, w), "every overlapping region is evicted")
			verifAssert(w.Context().Err() != nil, "every evicted region is marked dead")
		}
		verifAssert(vHas(after, n), "the new region is cached")
		verifAssert(n.Context().Err() == nil, "the new region is not marked dead")
		verifAssert(len(after) == len(regs)-len(want)+1, "nothing else is evicted or added")
		for _, o := range regs {
			if !vHas(want, o.r) {
				verifAssert(vHas(after, o.r), "regions that do not overlap stay cached")
				verifAssert(o.r.Context().Err() == nil, "regions that do not overlap stay alive")
			}
		}
	} else {
		verifReach("rejected")
		verifAssert(len(after) == len(regs), "a rejected discovery leaves the cache unchanged")
		for _, o := range regs {
			verifAssert(vHas(after, o.r), "a rejected discovery leaves the cache unchanged")
			verifAssert(o.r.Context().Err() == nil, "a rejected discovery marks nothing dead")
		}
		verifAssert(!vHas(after, n), "a rejected region is not cached")
	}
	// the representation invariant holds afterwards
	for i := range after {
		for j := 0; j < i; j++ {
			ti, tj := vTableOf(after[i]), vTableOf(after[j])
			verifAssert(!vOverlap(after[i], ti, after[j], tj), "no two cached regions of one table intersect")
		}
	}
}

func vTableOf(r hrpc.RegionInfo) int {
	fq := fullyQualifiedTable(r)
	for i, t := range vTables {
		if bytes.Equal(fq, []byte(t.fq)) {
			return i
		}
	}
	verifFail("unknown table")
	return -1
}

func VerifCacheDel() {
	c, regs := vCacheState()
	var victim hrpc.RegionInfo
	k := verifChoose(len(regs) + 1)
	if k < len(regs) {
		victim = regs[k].r
	} else {
		victim, _ = vSymRegion() // possibly not cached
	}
	cached := false
	for _, o := range regs {
		if bytes.Equal(o.r.Name(), victim.Name()) {
			cached = true
		}
	}
	ok := c.del(victim)
	after := vTreeContents(c)
	verifAssert(ok == cached, "del reports whether the name was cached")
	verifAssert(victim.Context().Err() != nil, "a removed region is marked dead")
	for _, o := range regs {
		if bytes.Equal(o.r.Name(), victim.Name()) {
			verifAssert(!vHas(after, o.r), "the named region is removed")
		} else {
			verifAssert(vHas(after, o.r), "no other region is removed")
			verifAssert(o.r.Context().Err() == nil || o.r == victim, "no other region is marked dead")
		}
	}
	verifReach("deleted")
}

// VerifCachePutConcurrent: two discoveries of overlapping regions race (every interleaving
// within the delay bound): afterwards no two cached regions of the table intersect, everything
// evicted is marked dead and everything cached is alive.
func VerifCachePutConcurrent() {
	// an old region covering [a, z) is cached; a region [a, m) and a newer one [c, f) that
	// overlaps it are discovered at the same time (ids symbolic: any age order of the two)
	c := &keyRegionCache{logger: vLogger(), regions: b.TreeNew[[]byte, hrpc.RegionInfo](region.Compare)}
	o := vMkRegion(0, 1, []byte("a"), []byte("z"))
	c.regions.Set(o.Name(), o)
	regs := []vCached{{o, 0}}
	ida, idb := verifInt(2, 5), verifInt(2, 5)
	verifAssume(ida != idb)
	a, ta := vMkRegion(0, uint64(ida), []byte("a"), []byte("m")), 0
	b, tb := vMkRegion(0, uint64(idb), []byte("c"), []byte("f")), 0
	done := make(chan struct{}, 2)
	go func() { c.put(a); done <- struct{}{} }()
	go func() { c.put(b); done <- struct{}{} }()
	<-done
	<-done
	after := vTreeContents(c)
	all := append([]vCached{{a, ta}, {b, tb}}, regs...)
	for i := range after {
		for j := 0; j < i; j++ {
			verifAssert(!vOverlap(after[i], vTableOf(after[i]), after[j], vTableOf(after[j])), "no two cached regions of one table intersect")
		}
		verifAssert(after[i].Context().Err() == nil, "a cached region is alive")
	}
	for _, x := range all {
		if !vHas(after, x.r) && x.r != a && x.r != b {
			verifAssert(x.r.Context().Err() != nil, "a region evicted from the cache is marked dead")
		}
	}
	verifReach("raced")
}
