package gohbase

import (
	"context"
	"io"

	"github.com/tsuna/gohbase/hrpc"
	"github.com/tsuna/gohbase/pb"
	"google.golang.org/protobuf/proto"
)

// C11 (g) — structurally valid but inconsistent scan responses (partial results without cells,
// flags without results, no scanner id, "more results in region" for ever) cannot make the
// scanner panic or spin. Real code: scanner.Next/peek/fetch/update/isDone/coalesce/shift/Close.

type vOddServer struct {
	responses int
	max       int
	reg       hrpc.RegionInfo
}

func (s *vOddServer) SendRPC(rpc hrpc.Call) (proto.Message, error) {
	if err := rpc.Context().Err(); err != nil {
		return nil, err
	}
	rpc.SetRegion(s.reg)
	sc := rpc.(*hrpc.Scan)
	if sc.IsClosing() || s.responses >= s.max {
		// after max arbitrary responses the server ends the scan
		return &pb.ScanResponse{MoreResults: proto.Bool(false)}, nil
	}
	s.responses++
	resp := &pb.ScanResponse{}
	if verifBool() {
		resp.ScannerId = proto.Uint64(7)
	}
	if verifBool() {
		resp.MoreResults = proto.Bool(verifBool())
	}
	if verifBool() {
		resp.MoreResultsInRegion = proto.Bool(verifBool())
	}
	n := verifInt(0, 2)
	for i := 0; i < n; i++ {
		r := &pb.Result{}
		if verifBool() {
			r.Partial = proto.Bool(verifBool())
		}
		nc := verifInt(0, 1)
		for j := 0; j < nc; j++ {
			r.Cell = append(r.Cell, &pb.Cell{Row: verifBytesN(1)})
		}
		resp.Results = append(resp.Results, r)
	}
	return resp, nil
}

func VerifOddScanResponses() {
	srv := &vOddServer{max: verifParam("RESP"), reg: vMkRegion(0, 1, nil, nil)}
	partials := verifBool()
	sc := newScanner(srv, vNewScan(context.Background(), nil, nil, false, partials), vLogger())
	for i := 0; ; i++ {
		verifAssert(i < 12, "the scan terminates")
		_, err := sc.Next()
		if err == io.EOF {
			break
		}
		verifAssert(err == nil, "an odd response is not an error of the transport")
	}
	verifQuiesce()
	verifReach("ended")
}
