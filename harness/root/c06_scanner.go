package gohbase

import (
	"bytes"
	"context"
	"errors"
	"io"
	"time"

	"github.com/tsuna/gohbase/hrpc"
	"github.com/tsuna/gohbase/pb"
	"google.golang.org/protobuf/proto"
)

// C06 / C14 — the scanner against a model HBase.
// Real code: scanner.Next/peek/fetch/request/update/isDone/coalesce/shift/Close/
// closeRegionScanner/isRegionScannerClosed/openRegionScanner, newScanner, toLocalResult,
// hrpc.NewScanRange, (*Scan).ToProto and the scan options, hrpc.ToLocalResult.
//
// The model server (vHBase, an RPCClient) holds a table of rows r1<r2<.. split into regions
// at symbolic boundaries; how many rows go into a response, where a row is cut into partial
// fragments, heart-beats and an early "no more results" are symbolic choices.

type vRow struct {
	key    []byte
	ncells int
}

type vSrvScanner struct {
	id       uint64
	reg      int
	reversed bool
	stop     []byte
	next     int  // index of the next row to deliver (forward: ascending; reversed: descending), -1/len = none
	cellOff  int  // cells of rows[next] already delivered as a partial fragment
	get      bool // start row == stop row (non-empty): a get of that row
}

type vHBase struct {
	rows        []vRow
	bounds      [][]byte // region boundaries b1<b2<..; region i = [bounds[i-1], bounds[i])
	regs        []hrpc.RegionInfo
	open        []*vSrvScanner // scanners currently open on the server
	nextID      uint64
	cellsOut    int // cells handed to the client so far
	requests    int
	failAt      int // the request with this ordinal fails with a non-retryable error (0 = never)
	opened      int
	closes      int
	badUse      string
	maxResp     int // responses per region scanner before the server delivers everything left
	served      int
	earlyStop   bool // the server may declare the scan finished while a region scanner is open
	silentAfter int  // the server stops answering after this many requests (0 = never)
	never       chan struct{}
}

var vErrApp = errors.New("verif: application error")

// regionOf uses the server's own copy of the boundaries (the client must not be able to
// change the cluster layout by writing into a RegionInfo it was handed).
func (h *vHBase) regionOf(key []byte) int {
	for i := range h.regs {
		var start, stop []byte
		if i > 0 {
			start = h.bounds[i-1]
		}
		if i < len(h.bounds) {
			stop = h.bounds[i]
		}
		if bytes.Compare(key, start) >= 0 && (len(stop) == 0 || bytes.Compare(key, stop) < 0) {
			return i
		}
	}
	return -1
}

func (h *vHBase) find(id uint64) (*vSrvScanner, int) {
	for i, s := range h.open {
		if s.id == id {
			return s, i
		}
	}
	return nil, -1
}

func (h *vHBase) closeScanner(i int) {
	h.open = append(h.open[:i:i], h.open[i+1:]...)
}

// inRegionRange: row index i belongs to scanner s's region and is not beyond its stop row.
func (h *vHBase) deliverable(s *vSrvScanner, i int) bool {
	if i < 0 || i >= len(h.rows) {
		return false
	}
	k := h.rows[i].key
	if h.regionOf(k) != s.reg {
		return false
	}
	if s.get {
		return bytes.Equal(k, s.stop) // HBase serves a scan whose start row equals its stop row as a get of that row
	}
	if s.reversed {
		return len(s.stop) == 0 || bytes.Compare(k, s.stop) > 0
	}
	return len(s.stop) == 0 || bytes.Compare(k, s.stop) < 0
}

func (h *vHBase) SendRPC(rpc hrpc.Call) (proto.Message, error) {
	if err := rpc.Context().Err(); err != nil {
		return nil, err
	}
	if h.silentAfter > 0 && h.requests >= h.silentAfter {
		// the server has stopped answering: only the request's own context ends the wait
		h.requests++
		select {
		case <-rpc.Context().Done():
			return nil, rpc.Context().Err()
		case <-h.never:
		}
	}
	scan, ok := rpc.(*hrpc.Scan)
	if !ok {
		h.badUse = "non-scan request"
		return nil, vErrApp
	}
	if scan.Region() == nil {
		scan.SetRegion(h.regs[0]) // provisional; the real client routes before serialising
	}
	req := scan.ToProto().(*pb.ScanRequest)
	h.requests++
	if h.failAt != 0 && h.requests == h.failAt && !req.GetCloseScanner() {
		return nil, vErrApp
	}
	var s *vSrvScanner
	if req.ScannerId == nil {
		// open a region scanner at the region containing the start row
		start := req.Scan.StartRow
		ri := h.regionOf(start)
		if ri < 0 {
			h.badUse = "start row in no region"
			return nil, vErrApp
		}
		rpc.SetRegion(h.regs[ri])
		h.nextID++
		h.opened++
		s = &vSrvScanner{id: h.nextID, reg: ri, reversed: req.Scan.GetReversed(), stop: req.Scan.StopRow}
		s.get = len(start) > 0 && bytes.Equal(start, req.Scan.StopRow)
		if s.reversed {
			s.next = -1
			for i := len(h.rows) - 1; i >= 0; i-- {
				if bytes.Compare(h.rows[i].key, start) <= 0 {
					s.next = i
					break
				}
			}
		} else {
			s.next = len(h.rows)
			for i := range h.rows {
				if bytes.Compare(h.rows[i].key, start) >= 0 {
					s.next = i
					break
				}
			}
		}
		h.open = append(h.open, s)
	} else {
		var idx int
		s, idx = h.find(req.GetScannerId())
		// the client routes every request by its key: a scanner id means something only to
		// the server of the region that the request's start row falls into
		if s != nil && h.regionOf(scan.Key()) != s.reg {
			s = nil
		}
		if s == nil {
			if req.GetCloseScanner() {
				return &pb.ScanResponse{}, nil
			}
			h.badUse = "request for a scanner that is not open"
			return nil, vErrApp
		}
		rpc.SetRegion(h.regs[s.reg])
		if req.GetCloseScanner() {
			h.closes++
			h.closeScanner(idx)
			return &pb.ScanResponse{MoreResults: proto.Bool(false)}, nil
		}
	}
	resp := &pb.ScanResponse{ScannerId: proto.Uint64(s.id), MoreResults: proto.Bool(true)}
	// how many results go into this response: 0 (heart-beat) .. limit
	limit := int(req.GetNumberOfRows())
	if limit > 2 {
		limit = 2
	}
	h.served++
	n := limit
	if h.served <= h.maxResp {
		n = verifInt(0, limit)
	}
	for len(resp.Results) < n && h.deliverable(s, s.next) {
		row := h.rows[s.next]
		take := row.ncells - s.cellOff
		partial := false
		if take > 1 && verifBool() {
			take, partial = 1, true // cut the row: a partial fragment
		}
		r := &pb.Result{Partial: proto.Bool(partial)}
		for c := 0; c < take; c++ {
			r.Cell = append(r.Cell, &pb.Cell{Row: row.key, Qualifier: []byte{byte('a' + s.cellOff + c)}})
		}
		h.cellsOut += take
		resp.Results = append(resp.Results, r)
		if partial {
			s.cellOff += take
		} else {
			s.cellOff = 0
			if s.reversed {
				s.next--
			} else {
				s.next++
			}
		}
	}
	if h.deliverable(s, s.next) {
		resp.MoreResultsInRegion = proto.Bool(true)
		if h.earlyStop && verifBool() {
			// a filter or limit ends the whole scan although the region scanner is still
			// open: the client has to close it explicitly
			resp.MoreResults = proto.Bool(false)
		}
		return resp, nil
	}
	// region exhausted for this scan: the server closes the region scanner
	resp.MoreResultsInRegion = proto.Bool(false)
	_, idx := h.find(s.id)
	h.closeScanner(idx)
	// the server may say "no more results" when nothing beyond this region is in range
	beyond := false
	for i := range h.rows {
		k := h.rows[i].key
		ri := h.regionOf(k)
		if s.reversed && ri < s.reg && (len(s.stop) == 0 || bytes.Compare(k, s.stop) > 0) {
			beyond = true
		}
		if !s.reversed && ri > s.reg && (len(s.stop) == 0 || bytes.Compare(k, s.stop) < 0) {
			beyond = true
		}
	}
	if !beyond && verifBool() {
		resp.MoreResults = proto.Bool(false)
	}
	return resp, nil
}

// vCluster builds the model: R rows of 1..2 cells with symbolic one-byte keys, M regions with
// symbolic boundaries.
func vCluster() *vHBase {
	h := &vHBase{maxResp: verifParam("RESP")}
	if vScannerIDsFromZero {
		h.nextID = ^uint64(0)
	}
	nrows := verifParam("ROWS")
	var prev []byte
	for i := 0; i < nrows; i++ {
		var k []byte
		if vZeroKeys {
			k = append([]byte{verifU8()}, make([]byte, verifChoose(3))...)
		} else if kl := verifParam("KEYL"); kl == 1 {
			k = verifBytesN(1)
		} else {
			k = verifBytes(kl)
			verifAssume(len(k) > 0)
		}
		if prev != nil {
			verifAssume(bytes.Compare(prev, k) < 0)
		}
		prev = k
		nc := 1
		if verifBool() {
			nc = 2
		}
		h.rows = append(h.rows, vRow{key: k, ncells: nc})
	}
	nreg := verifParam("REGIONS")
	var start []byte
	for i := 0; i < nreg; i++ {
		var stop []byte
		if i < nreg-1 {
			if vZeroKeys {
				stop = append([]byte{verifU8()}, make([]byte, verifChoose(3))...)
			} else {
				stop = verifBytesN(1)
			}
			verifAssume(bytes.Compare(start, stop) < 0)
			h.bounds = append(h.bounds, append([]byte{}, stop...))
		}
		h.regs = append(h.regs, vMkRegion(0, uint64(i+1), start, stop))
		start = stop
	}
	return h
}

func vExpected(h *vHBase, start, stop []byte, reversed bool) []vRow {
	var out []vRow
	if !reversed {
		for _, r := range h.rows {
			if bytes.Compare(r.key, start) >= 0 && (len(stop) == 0 || bytes.Compare(r.key, stop) < 0) {
				out = append(out, r)
			}
		}
		return out
	}
	for i := len(h.rows) - 1; i >= 0; i-- {
		r := h.rows[i]
		if bytes.Compare(r.key, start) <= 0 && (len(stop) == 0 || bytes.Compare(r.key, stop) > 0) {
			out = append(out, r)
		}
	}
	return out
}

func vNewScan(ctx context.Context, start, stop []byte, reversed, partials bool) *hrpc.Scan {
	opts := []func(hrpc.Call) error{hrpc.NumberOfRows(uint32(verifParam("NROWS")))}
	if reversed {
		opts = append(opts, hrpc.Reversed())
	}
	if partials {
		opts = append(opts, hrpc.AllowPartialResults())
	}
	s, err := hrpc.NewScanRange(ctx, []byte("t"), start, stop, opts...)
	if err != nil {
		panic(err)
	}
	return s
}

// vZeroKeys: row keys and region boundaries are one arbitrary byte followed by 0..2 zero bytes
// (the neighbourhood in which "the closest row before this key" is computed for reversed scans).
var vZeroKeys bool

// VerifScanZeroKeys is VerifScan over such keys.
func VerifScanZeroKeys() {
	vZeroKeys = true
	VerifScan()
}

// vScannerIDsFromZero: the model server numbers its region scanners 0, 1, 2, ... instead of
// 1, 2, 3, ... (a scanner id is opaque to the client; 0 is a legal id).
var vScannerIDsFromZero bool

// VerifScanID0 is VerifScan against a server whose first region scanner has id 0.
func VerifScanID0() {
	vScannerIDsFromZero = true
	VerifScan()
}

// VerifScan (C06): the rows returned until io.EOF are exactly the rows in range, in scan
// order, each once and whole (with partial results allowed: fragments concatenate to rows).
func VerifScan() {
	h := vCluster()
	reversed := verifParam("REVERSED") == 1
	partials := verifBool()
	var start, stop []byte
	if reversed {
		start = verifBytesN(1) // reversed scans take an explicit start row
		stop = verifBytes(1)
		verifAssume(len(stop) == 0 || bytes.Compare(stop, start) < 0)
	} else {
		start = verifBytes(1)
		stop = verifBytes(1)
		verifAssume(len(stop) == 0 || bytes.Compare(start, stop) < 0)
	}
	sc := newScanner(h, vNewScan(context.Background(), start, stop, reversed, partials), vLogger())
	want := vExpected(h, start, stop, reversed)

	var got []vRow
	for i := 0; ; i++ {
		verifAssert(i < 40, "the scan terminates")
		r, err := sc.Next()
		if err == io.EOF {
			break
		}
		verifAssert(err == nil, "a scan against a healthy cluster does not fail")
		verifAssert(r != nil && len(r.Cells) > 0, "every result carries cells")
		key := r.Cells[0].Row
		for _, c := range r.Cells {
			verifAssert(bytes.Equal(c.Row, key), "a result holds cells of one row only")
		}
		if partials && len(got) > 0 && bytes.Equal(got[len(got)-1].key, key) {
			got[len(got)-1].ncells += len(r.Cells) // fragments of one row are adjacent
		} else {
			got = append(got, vRow{key: key, ncells: len(r.Cells)})
		}
	}
	verifQuiesce()
	verifAssert(h.badUse == "", "protocol use: "+h.badUse)
	verifObserveInt("rows", len(got))
	verifAssert(len(got) == len(want), "exactly the rows in range are returned, each once")
	for i := range want {
		verifAssert(bytes.Equal(got[i].key, want[i].key), "rows come in scan order")
		verifAssert(got[i].ncells == want[i].ncells, "every row comes with all of its cells")
	}
	verifAssert(len(h.open) == 0, "no region scanner is left open on a server")
	verifReach("scanned")
}

// VerifScanEndings (C14): a scan ended at any point — exhausted, closed early, failed on any
// request, cancelled — reports its error once and io.EOF from then on, Close is idempotent, and
// every region scanner opened on the server has been exhausted or explicitly closed.
func VerifScanEndings() {
	h := vCluster()
	reversed := verifParam("REVERSED") == 1
	start := verifBytesN(1)
	var stop []byte
	// the scan's context either is cancelled by its owner or carries a deadline that passes:
	// the close of an open region scanner must reach the server in both cases
	byDeadline := verifBool()
	ctx, cancel := context.WithCancel(context.Background())
	if byDeadline {
		ctx, cancel = context.WithTimeout(context.Background(), 200*time.Millisecond)
	}
	sc := newScanner(h, vNewScan(ctx, start, stop, reversed, false), vLogger())

	h.earlyStop = true
	// 0 Close, 1 a request fails, 2 cancellation, 3 nothing, 4 a request fails and the scan's
	// context is cancelled after that error has been reported
	ending := verifInt(0, 4)
	at := verifInt(0, 3) // Next calls before the ending event (close / cancel), or failing request - 1
	if ending == 1 || ending == 4 {
		h.failAt = at + 1
	}
	errs := 0
	eof := false
	cellsIn := 0 // cells the scanner has returned to its caller
	for i := 0; i < 8 && !eof; i++ {
		if i == at && ending == 0 {
			verifAssert(sc.Close() == nil, "Close succeeds")
			verifReach("closed-early")
		}
		if i == at && ending == 2 {
			if byDeadline {
				verifQuiesce() // close requests already on their way are not what is examined here
				verifExpire(ctx)
				verifReach("expired")
			} else {
				cancel()
			}
			verifReach("cancelled")
		}
		r, err := sc.Next()
		if r != nil {
			cellsIn += len(r.Cells)
		}
		switch {
		case err == io.EOF:
			eof = true
			verifAssert(r == nil, "end of scan carries no row")
			if errs == 0 && !(ending == 0 && i >= at) {
				// a scan that ends without having reported anything (and that its user did not
				// close) has handed over everything it received: nothing is dropped silently
				verifAssert(cellsIn == h.cellsOut, "a scan that reports a clean end has delivered every row it received")
			}
		case err != nil:
			errs++
			verifAssert(errs == 1, "an error or a cancellation is reported once, end-of-scan from then on")
			if ending == 1 || ending == 4 {
				verifAssert(err == vErrApp, "the request's error is returned unchanged")
				// a request is made only when nothing complete is buffered: whatever the server has
				// delivered and the caller has not seen yet is the row being assembled
				verifAssert(cellsIn == h.cellsOut, "a request's error comes together with the part of the row already assembled")
				if r != nil {
					verifReach("error-with-partial-row")
				}
				verifReach("failed")
				if ending == 4 {
					// (cancelled also when the context has a deadline: the close request spawned by
					// the error is concurrent with what happens here, and a deadline passing before
					// that goroutine has run cannot be forced in a native replay)
					cancel()
					verifReach("failed-then-cancelled")
				}
			} else {
				wantErr := context.Canceled
				if byDeadline {
					wantErr = context.DeadlineExceeded
				}
				verifAssert(ending == 2 && err == wantErr, "only a cancelled scan reports the context error")
			}
		default:
			verifAssert(r != nil && len(r.Cells) > 0, "every result carries cells")
		}
	}
	verifAssert(eof, "the scan reaches end-of-scan")
	for i := 0; i < 2; i++ {
		r, err := sc.Next()
		verifAssert(err == io.EOF && r == nil, "end-of-scan is final")
	}
	verifAssert(sc.Close() == nil && sc.Close() == nil, "Close is idempotent")
	cancel()
	verifQuiesce()
	verifAssert(h.badUse == "" || h.badUse == "request for a scanner that is not open", "protocol use: "+h.badUse)
	verifAssert(len(h.open) == 0, "every region scanner opened on a server was exhausted or explicitly closed")
	verifObserveInt("opened", h.opened)
	verifObserveInt("closes", h.closes)
	verifReach("ended")
}

// VerifCancelScan (C13): a scan whose server goes silent while a region scanner is open:
// Next returns the context error promptly when the scan's context is cancelled, whether the
// cancellation comes between two fetches or during one.
func VerifCancelScan() {
	verifFreezeTime(true)
	h := &vHBase{maxResp: 0, never: make(chan struct{}), silentAfter: 1}
	h.rows = []vRow{{key: []byte("a"), ncells: 1}, {key: []byte("b"), ncells: 1}, {key: []byte("c"), ncells: 1}}
	h.regs = []hrpc.RegionInfo{vMkRegion(0, 1, nil, nil)}
	ctx, cancel := context.WithCancel(context.Background())
	sc := newScanner(h, vNewScan(ctx, nil, nil, false, false), vLogger())
	r, err := sc.Next()
	verifAssert(err == nil && r != nil, "the first row arrives while the server still answers")
	during := verifBool()
	if !during {
		cancel() // between two fetches
	}
	var nerr error
	done := false
	go func() {
		_, nerr = sc.Next()
		done = true
	}()
	verifQuiesce()
	if during {
		verifAssert(!done, "Next is blocked on the silent server")
		cancel()
		verifQuiesce()
	}
	verifAssert(done, "Next returns once the scan's context is cancelled, although the server is silent")
	verifAssert(nerr == context.Canceled, "it returns the context's error")
	r2, err2 := sc.Next()
	verifAssert(err2 == io.EOF && r2 == nil, "the cancellation is reported once, end-of-scan from then on")
	verifReach("cancelled")
}
