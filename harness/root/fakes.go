package gohbase

import (
	"io"
	"log/slog"
)

// vLogger: a logger that discards (natively); logging is a no-op in the engine.
func vLogger() *slog.Logger {
	return slog.New(slog.NewTextHandler(io.Discard, nil))
}
