package gohbase

import (
	"context"
	"time"

	"github.com/tsuna/gohbase/hrpc"
	"github.com/tsuna/gohbase/region"
	"github.com/tsuna/gohbase/zk"
)

// C13 — cancellation is honoured promptly in every state. Decided as a safety property of the
// wait sets: in an adversarial environment (silent servers, regions that never come back,
// ZooKeeper that never answers, time standing still) the API call is blocked; once its context
// is cancelled it returns a context error without further blocking.
// Real code: SendRPC, getRegionAndClientForRPC, getRegionForRpc, findRegion, lookupRegion,
// metaLookup, zkLookup, scanner.Next/fetch/request (meta scan), sendBlocking,
// sendRPCToRegionClient, handleResultError, sleepAndIncreaseBackoff, reestablishRegion,
// establishRegion, SendBatch, findClients, waitForCompletion.

type vSilentRC struct {
	vRegionClient
	mode int // 0: never answers; 1: answers retry-later
}

func (r *vSilentRC) QueueRPC(c hrpc.Call) {
	if r.mode == 1 {
		c.ResultChan() <- hrpc.RPCResult{Error: region.RetryableError{}}
	}
}

// QueueBatch behaves like the real region client: a call whose own context has ended is
// dropped without a result; the others are never answered (silent server).
func (r *vSilentRC) QueueBatch(ctx context.Context, cs []hrpc.Call) {
	for _, c := range cs {
		if r.mode == 1 && c.Context().Err() == nil {
			c.ResultChan() <- hrpc.RPCResult{Error: region.RetryableError{}}
		}
	}
}

type vStuckZK struct{ never chan struct{} }

func (z *vStuckZK) LocateResource(zk.ResourceName) (string, error) {
	<-z.never
	return "", nil
}

const (
	wsRegionUnavailable = iota // the region is marked unavailable and nobody brings it back
	wsNoClient                 // the region has no connection; its establisher never finishes
	wsSilentServer             // the request is queued on a server that never answers
	wsBackoff                  // the server says retry later; the back-off sleep never ends
	wsZooKeeper                // the region is unknown; hbase:meta has to be located through a silent ZooKeeper
	wsCount
)

var vStateNames = []string{"region unavailable", "no connection", "silent server", "back-off sleep", "unknown region, silent ZooKeeper"}

func vCancelSetup(state int) (*client, hrpc.RegionInfo) {
	c := vNewRootClient()
	c.regionLookupTimeout = time.Hour
	c.zkClient = &vStuckZK{never: make(chan struct{})}
	establishRegionOverride = nil
	reg := vMkRegion(0, 1, nil, nil)
	rc := &vSilentRC{}
	rc.addr = "rs0:1"
	switch state {
	case wsRegionUnavailable:
		c.regions.put(reg)
		reg.SetClient(rc)
		reg.MarkUnavailable()
	case wsNoClient:
		c.regions.put(reg)
		establishRegionOverride = func(reg hrpc.RegionInfo, addr string) {} // never comes back
	case wsSilentServer:
		c.regions.put(reg)
		reg.SetClient(c.clients.put(rc.addr, reg, func() hrpc.RegionClient { return rc }))
	case wsBackoff:
		rc.mode = 1
		c.regions.put(reg)
		reg.SetClient(c.clients.put(rc.addr, reg, func() hrpc.RegionClient { return rc }))
	case wsZooKeeper:
		// nothing cached: meta lookup -> scan of hbase:meta -> meta region has no connection ->
		// its establisher asks ZooKeeper, which never answers
	}
	return c, reg
}

// VerifCancelSingle: a single request blocked in any wait state returns the context error
// once its context is cancelled.
func VerifCancelSingle() {
	verifFreezeTime(true)
	state := verifChoose(wsCount)
	c, _ := vCancelSetup(state)
	ctx, cancel := context.WithCancel(context.Background())
	g, _ := hrpc.NewGet(ctx, []byte("t"), []byte("k"))
	var err error
	done := false
	go func() {
		_, err = c.SendRPC(g)
		done = true
	}()
	verifQuiesce()
	verifAssert(!done, "the request is blocked in the wait state under test")
	cancel()
	verifQuiesce()
	establishRegionOverride = nil
	verifAssert(done, "a request blocked in state '"+vStateNames[state]+"' returns once its context is cancelled")
	verifAssert(err == context.Canceled, "it returns the context's error")
	verifObserveInt("state", state)
	verifReach("cancelled")
}

// VerifDeadlineSingle: as VerifCancelSingle, but the context ends by deadline expiry: the
// request returns context.DeadlineExceeded (the lookups' own timeouts - regionLookupTimeout is
// an hour - do not expire; only the caller's deadline passes).
func VerifDeadlineSingle() {
	verifFreezeTime(true)
	state := verifChoose(wsCount)
	c, _ := vCancelSetup(state)
	ctx, cancel := context.WithTimeout(context.Background(), 1500*time.Millisecond)
	defer cancel()
	g, _ := hrpc.NewGet(ctx, []byte("t"), []byte("k"))
	var err error
	done := false
	go func() {
		_, err = c.SendRPC(g)
		done = true
	}()
	verifQuiesce()
	verifAssert(!done, "the request is blocked in the wait state under test")
	verifExpire(ctx)
	verifQuiesce()
	establishRegionOverride = nil
	verifAssert(done, "a request blocked in state '"+vStateNames[state]+"' returns once its deadline has passed")
	verifAssert(err == context.DeadlineExceeded, "it returns the context's error")
	verifObserveInt("state", state)
	verifReach("expired")
}

// VerifCancelSecondCaller: request A is blocked in a wait state; request B (another key, its own
// context) runs into the same state behind it and is then cancelled: B returns promptly with its
// context's error although A is still waiting (B must not be parked behind A on something that
// does not watch B's context).
func VerifCancelSecondCaller() {
	verifFreezeTime(true)
	state := verifChoose(wsCount)
	c, _ := vCancelSetup(state)
	ctxA, cancelA := context.WithCancel(context.Background())
	ctxB, cancelB := context.WithCancel(context.Background())
	ga, _ := hrpc.NewGet(ctxA, []byte("t"), []byte("k"))
	gb, _ := hrpc.NewGet(ctxB, []byte("t"), []byte("z"))
	var errA, errB error
	doneA, doneB := false, false
	go func() {
		_, errA = c.SendRPC(ga)
		doneA = true
	}()
	verifQuiesce()
	verifAssert(!doneA, "request A is blocked in the wait state under test")
	go func() {
		_, errB = c.SendRPC(gb)
		doneB = true
	}()
	verifQuiesce()
	verifAssert(!doneA && !doneB, "both requests are blocked")
	cancelB()
	verifQuiesce()
	verifAssert(doneB, "request B, blocked behind A in state '"+vStateNames[state]+"', returns once its own context is cancelled")
	verifAssert(errB == context.Canceled, "it returns its context's error")
	verifAssert(!doneA, "request A keeps waiting")
	cancelA()
	verifQuiesce()
	establishRegionOverride = nil
	verifAssert(doneA && errA == context.Canceled, "request A returns once its context is cancelled")
	verifObserveInt("state", state)
	verifReach("second-cancelled")
}

// VerifCancelBatch: a batch blocked in any wait state; the batch context or the context of
// one call of the batch is cancelled (contexts shared or distinct).
func VerifCancelBatch() {
	verifFreezeTime(true)
	state := verifChoose(wsCount)
	c, _ := vCancelSetup(state)
	bctx, bcancel := context.WithCancel(context.Background())
	cctx, ccancel := bctx, bcancel
	distinct := verifBool()
	if distinct {
		cctx, ccancel = context.WithCancel(context.Background())
	}
	vals := map[string]map[string][]byte{"f": {"q": []byte("v")}}
	p1, _ := hrpc.NewPut(cctx, []byte("t"), []byte("a"), vals)
	p2, _ := hrpc.NewPut(cctx, []byte("t"), []byte("b"), vals)
	var res []hrpc.RPCResult
	ok, done := false, false
	go func() {
		res, ok = c.SendBatch(bctx, []hrpc.Call{p1, p2})
		done = true
	}()
	verifQuiesce()
	verifAssert(!done, "the batch is blocked in the wait state under test")
	cancelCalls := distinct && verifBool()
	if cancelCalls {
		ccancel() // only the calls' own context ends; the batch context stays live
		verifReach("call-context-cancelled")
	} else {
		bcancel()
	}
	verifQuiesce()
	establishRegionOverride = nil
	which := "batch context"
	if cancelCalls {
		which = "calls' own context"
	}
	verifAssert(done, "a batch blocked in state '"+vStateNames[state]+"' returns once the "+which+" is cancelled")
	verifAssert(!ok && len(res) == 2, "the batch is reported as failed")
	for i := range res {
		verifAssert(res[i].Error != nil, "every unanswered call is marked failed")
	}
	bcancel()
	ccancel()
	verifReach("cancelled")
}
