package gohbase

import (
	"context"
	"errors"
	"net"
	"time"

	"log/slog"

	"github.com/tsuna/gohbase/compression"
	"github.com/tsuna/gohbase/hrpc"
	"github.com/tsuna/gohbase/region"
)

// C09 / C04 / C17 / C19 — the region (re-)establishment protocol against a scripted cluster.
// Real code: establishRegion, reestablishRegion, isRegionEstablished, sendBlocking, probeKey,
// clientDown, clientRegionCache.put/del/clientDown/closeAll, keyRegionCache.put/del,
// getRegionAndClientForRPC, getRegionForRpc, getRegionFromCache, findRegion, SendRPC,
// sendRPCToRegionClient, handleResultError, sleepAndIncreaseBackoff, Close, the region
// availability protocol (MarkUnavailable / MarkAvailable / AvailabilityChan / SetClient).
// Cut: (*client).lookupRegion -> vLookupRegion (job stub, native: overlay rename) — hbase:meta
// and ZooKeeper answer from a script. Fake region clients at the hrpc.RegionClient seam.

const (
	lkSame     = iota // the region is (still) where the script says
	lkReplaced        // hbase:meta now lists a different (newer) region for the key: split / merge
	lkGone            // table not found
)

const (
	prOK = iota
	prNotServing
	prServerError
	prRetryLater
)

type vCluEnv struct {
	onDial      func() // hook: runs once inside the next Dial
	onProbe     func() // hook: runs once inside the next probe (QueueRPC)
	probeRetry  int    // the next so many requests are answered "retry later" by a healthy connection
	probeDead   int    // the next so many connections die at their first request
	zkLike      bool   // lookups succeed although the client is closed (ZooKeeper-based: hbase:meta, master)
	tableGone   bool   // the script let hbase:meta answer "no such table" at least once
	c           *client
	made        map[string]int
	clients     []*vCluRC
	lookups     int
	dials       int
	probes      int
	sleeps      []time.Duration
	budget      int // remaining scripted misbehaviours; afterwards the cluster is stable
	replaced    hrpc.RegionInfo
	replacedFor map[string]hrpc.RegionInfo
	closedAt    int // dials/lookups observed after Close returned
	closed      bool
	userOut     []int // scripted outcomes for user requests
	twoRegions  bool
	bounce      bool // hbase:meta lists the region on alternating servers
	refuse      int  // the next so many dials are refused
	moved       bool // the region now lives on rs1; rs0 answers not-serving for it
	stale       int  // hbase:meta still lists rs0 for this many more lookups
}

var vClu *vCluEnv

type vCluRC struct {
	addr    string
	env     *vCluEnv
	closed  int
	dead    bool
	dialled bool // Dial succeeded: the connection is open until Close
}

func (e *vCluEnv) misbehave() bool {
	if e.budget > 0 && verifBool() {
		e.budget--
		return true
	}
	return false
}

func (r *vCluRC) Dial(ctx context.Context) error {
	verifJitter()
	e := r.env
	e.dials++
	if f := e.onDial; f != nil {
		e.onDial = nil
		f()
	}
	if e.closed {
		e.closedAt++
	}
	if r.closed > 0 {
		return region.ErrClientClosed
	}
	if e.refuse > 0 {
		e.refuse--
		return errors.New("verif: connection refused")
	}
	if e.misbehave() {
		r.dead = true
		return region.ServerError{}
	}
	r.dialled = true
	return nil
}
func (r *vCluRC) Close()         { verifJitter(); r.closed++ }
func (r *vCluRC) Addr() string   { return r.addr }
func (r *vCluRC) String() string { return r.addr }

func (r *vCluRC) answer(c hrpc.Call) {
	verifJitter()
	e := r.env
	if e.probeRetry > 0 && r.closed == 0 && !r.dead {
		// region still opening / call queue full: the (healthy) connection answers "retry later"
		e.probeRetry--
		c.ResultChan() <- hrpc.RPCResult{Error: region.RetryableError{}}
		return
	}
	if e.probeDead > 0 && r.closed == 0 && !r.dead {
		// the server accepts the connection and drops it at the first request
		e.probeDead--
		r.dead = true
		c.ResultChan() <- hrpc.RPCResult{Error: region.ServerError{}}
		return
	}
	if r.closed > 0 || r.dead {
		c.ResultChan() <- hrpc.RPCResult{Error: region.ErrClientClosed}
		return
	}
	if e.moved && r.addr == "rs0:1" {
		c.ResultChan() <- hrpc.RPCResult{Error: region.NotServingRegionError{}}
		return
	}
	if !e.misbehave() {
		c.ResultChan() <- hrpc.RPCResult{}
		return
	}
	switch verifInt(1, 3) {
	case prNotServing:
		c.ResultChan() <- hrpc.RPCResult{Error: region.NotServingRegionError{}}
	case prServerError:
		r.dead = true
		c.ResultChan() <- hrpc.RPCResult{Error: region.ServerError{}}
	default:
		c.ResultChan() <- hrpc.RPCResult{Error: region.RetryableError{}}
	}
}

func (r *vCluRC) QueueRPC(c hrpc.Call) {
	r.env.probes++
	if f := r.env.onProbe; f != nil {
		r.env.onProbe = nil
		f()
	}
	r.answer(c)
}
func (r *vCluRC) QueueBatch(ctx context.Context, cs []hrpc.Call) {
	for _, c := range cs {
		r.answer(c)
	}
}

func (e *vCluEnv) factory(addr string, ctype region.ClientType, queueSize int, flushInterval time.Duration,
	effectiveUser string, readTimeout time.Duration, codec compression.Codec,
	dialer func(ctx context.Context, network, addr string) (net.Conn, error), log *slog.Logger) hrpc.RegionClient {
	e.made[addr]++
	rc := &vCluRC{addr: addr, env: e}
	e.clients = append(e.clients, rc)
	return rc
}

// vRealLookup: natively the cut of lookupRegion is made per property (overlay); a job of such a
// property that wants the real lookupRegion sets this (the engine cuts per job and ignores it).
var vRealLookup bool

// vLookupRegion replaces (*client).lookupRegion: hbase:meta answers from the script.
func vLookupRegion(c *client, ctx context.Context, table, key []byte) (hrpc.RegionInfo, string, error) {
	verifYield()
	verifJitter()
	e := vClu
	e.lookups++
	if e.closed {
		e.closedAt++
	}
	select {
	case <-c.done:
		// a lookup through hbase:meta fails once the client is closed; locating hbase:meta or the
		// master itself goes through ZooKeeper and does not notice (e.zkLike)
		if !e.zkLike {
			return nil, "", ErrClientClosed
		}
	default:
	}
	if ctx.Err() != nil {
		return nil, "", ctx.Err()
	}
	if e.bounce && e.lookups%2 == 0 {
		return vMkRegion(0, 1, nil, nil), "rs1:1", nil
	}
	if e.moved {
		if e.stale > 0 {
			e.stale--
			return vMkRegion(0, 1, nil, nil), "rs0:1", nil
		}
		return vMkRegion(0, 1, nil, nil), "rs1:1", nil
	}
	// the range of the region that contains the key, as hbase:meta knows it
	var start, stop []byte
	id := uint64(1)
	if e.twoRegions {
		if len(key) > 0 && key[0] >= 'm' {
			start, id = []byte("m"), 2
		} else {
			stop = []byte("m")
		}
	}
	k := string(start)
	if e.misbehave() {
		if verifBool() {
			e.tableGone = true
			return nil, "", TableNotFound
		}
		if e.replacedFor[k] == nil {
			// the range now belongs to a newer region (e.g. the region was re-created)
			e.replacedFor[k] = vMkRegion(0, id+6, start, stop)
			e.replaced = e.replacedFor[k]
		}
	}
	if r := e.replacedFor[k]; r != nil {
		// a meta scan builds a fresh RegionInfo every time (an object that was evicted and marked
		// dead meanwhile must not come back from a later lookup)
		return vMkRegion(0, r.ID(), r.StartKey(), r.StopKey()), "rs1:1", nil
	}
	// the region is where it was; build a fresh RegionInfo like a meta scan does
	return vMkRegion(0, id, start, stop), "rs0:1", nil
}

var vErrFatal = errors.New("verif: application exception")

func vCluSetup() (*client, *vCluEnv) {
	c := vNewRootClient()
	e := &vCluEnv{c: c, made: map[string]int{}, budget: verifParam("FAULTS"), replacedFor: map[string]hrpc.RegionInfo{}}
	vClu = e
	c.newRegionClientFn = e.factory
	c.regionLookupTimeout = time.Second
	sleepAndIncreaseBackoffOverride = func(ctx context.Context, b time.Duration) (time.Duration, error) {
		verifJitter()
		e.sleeps = append(e.sleeps, b)
		if ctx.Err() != nil {
			return 0, ctx.Err()
		}
		if b == 0 {
			return backoffStart, nil
		}
		return b * 2, nil
	}
	return c, e
}

// VerifEstablish (C09-H1, C04 c/d): one outage of a cached region, any script of up to FAULTS
// misbehaviours (lookup: table gone / region replaced; dial fails; probe: not serving, server
// error, retry later) followed by a stable cluster: the establisher terminates, the region's
// waiters are released exactly once, and no live cached region is left unavailable.
func VerifEstablish() {
	c, e := vCluSetup()
	reg := vMkRegion(0, 1, nil, nil)
	_, replaced := c.regions.put(reg)
	verifAssert(replaced, "region cached")
	verifAssert(reg.MarkUnavailable(), "first to mark")
	waiter := reg.AvailabilityChan()
	addr := ""
	if verifBool() {
		addr = "rs0:1"
	}
	c.establishRegion(reg, addr)
	verifQuiesce()
	sleepAndIncreaseBackoffOverride = nil

	select {
	case <-waiter:
	default:
		verifFail("the waiters of the region are released when the establisher returns")
	}
	verifAssert(!reg.IsUnavailable(), "the region is no longer marked unavailable")
	// whatever is cached and alive is usable
	for _, r := range vTreeContents(&c.regions) {
		if r.Context().Err() == nil {
			verifAssert(!r.IsUnavailable(), "no live cached region remains marked unavailable")
			verifAssert(r.Client() != nil, "a live, available cached region has a connection")
		}
	}
	if reg.Context().Err() == nil && vHas(vTreeContents(&c.regions), reg) {
		verifReach("re-established")
	} else {
		verifReach("replaced-or-gone")
	}
	verifAssert(verifGoroutines() == 0, "no goroutine is left")
	verifObserveInt("lookups", e.lookups)
}

type vUserResult struct {
	err  error
	done bool
}

// vUserGet issues one get through the public path and records how it ended.
func vUserGet(c *client, ctx context.Context, key string, out *vUserResult, fin chan struct{}) {
	g, err := hrpc.NewGet(ctx, []byte("t"), []byte(key))
	if err != nil {
		panic(err)
	}
	_, out.err = c.SendRPC(g)
	out.done = true
	if fin != nil {
		fin <- struct{}{}
	}
}

// VerifSendRPCFaults (C04 end-to-end, bounded): one request for a key of a cached or unknown
// region, any script of up to FAULTS cluster misbehaviours (request answered not-serving /
// server-error / retry-later, dial failure, probe failures, meta listing a replacement region
// or no table) followed by a stable cluster: the request succeeds against the region's current
// connection, or returns TableNotFound when the script removed the table; it never returns a
// retryable error.
func VerifSendRPCFaults() {
	c, e := vCluSetup()
	if verifBool() {
		// the region is already known and online
		reg := vMkRegion(0, 1, nil, nil)
		c.regions.put(reg)
		reg.SetClient(c.clients.put("rs0:1", reg, func() hrpc.RegionClient { return e.factory("rs0:1", "", 0, 0, "", 0, nil, nil, nil) }))
	}
	var res vUserResult
	vUserGet(c, context.Background(), "k", &res, nil)
	verifQuiesce()
	sleepAndIncreaseBackoffOverride = nil
	verifAssert(res.done, "the request returns once the cluster is stable")
	if res.err != nil {
		verifAssert(res.err == TableNotFound, "only a real error surfaces: the table is gone")
		verifReach("table-gone")
	} else {
		verifReach("succeeded")
	}
	for _, r := range vTreeContents(&c.regions) {
		if r.Context().Err() == nil {
			verifAssert(!r.IsUnavailable(), "no live cached region remains marked unavailable")
		}
	}
	verifAssert(verifGoroutines() == 0, "no goroutine is left")
}

// VerifTwoCallers (C09-H2): two concurrent requests for two regions that share one
// connection, faults injected by the script (connection loss seen by either request,
// not-serving bursts, replacement while waiting), every interleaving within the delay bound:
// no panic, both requests return, nothing stays blocked, no live cached region stays unavailable.
func VerifTwoCallers() {
	c, e := vCluSetup()
	ra, rb := vMkRegion(0, 1, nil, []byte("m")), vMkRegion(0, 2, []byte("m"), nil)
	shared := e.factory("rs0:1", "", 0, 0, "", 0, nil, nil, nil)
	for _, r := range []hrpc.RegionInfo{ra, rb} {
		c.regions.put(r)
		r.SetClient(c.clients.put("rs0:1", r, func() hrpc.RegionClient { return shared }))
	}
	e.twoRegions = true
	if verifParam("BUSY") == 1 {
		// region B is in the middle of an outage: marked unavailable, its establisher running
		rb.SetClient(nil)
		rb.MarkUnavailable()
		go c.establishRegion(rb, "rs0:1")
	}
	fin := make(chan struct{}, 2)
	var r1, r2 vUserResult
	second := "x"
	if verifParam("SAME") == 1 {
		second = "b" // both requests hit the same region
	}
	go vUserGet(c, context.Background(), "a", &r1, fin)
	go vUserGet(c, context.Background(), second, &r2, fin)
	<-fin
	<-fin
	verifQuiesce()
	sleepAndIncreaseBackoffOverride = nil
	verifAssert(r1.done && r2.done, "both requests return")
	for _, r := range vTreeContents(&c.regions) {
		if r.Context().Err() == nil {
			verifAssert(!r.IsUnavailable(), "no live cached region remains marked unavailable")
		}
	}
	verifAssert(verifGoroutines() == 0, "no goroutine is left running or blocked")
	verifReach("both-returned")
}

// VerifEvictedWhileEstablishing: a region is being re-established (a request waits for it) when
// another caller's lookup discovers its successor (split / merge / re-creation): the region is
// evicted from the cache and marked dead while its establisher is inside Dial or inside the
// probe, which then succeeds. The evicted region's waiters are released all the same, and the
// waiting request completes against the successor.
func VerifEvictedWhileEstablishing() {
	c, e := vCluSetup()
	reg := vMkRegion(0, 1, nil, nil)
	c.regions.put(reg)
	reg.MarkUnavailable()
	newer := vMkRegion(0, 7, nil, nil)
	e.replacedFor[""], e.replaced = newer, newer // hbase:meta lists the successor from now on
	evict := func() { c.regions.put(newer) }
	if verifBool() {
		e.onDial = evict
	} else {
		e.onProbe = evict
	}
	fin := make(chan struct{}, 1)
	var r1 vUserResult
	go vUserGet(c, context.Background(), "k", &r1, fin)
	verifQuiesce()
	verifAssert(!r1.done, "the request waits for the region")
	go c.establishRegion(reg, "rs0:1")
	<-fin
	verifQuiesce()
	sleepAndIncreaseBackoffOverride = nil
	verifAssert(reg.Context().Err() != nil, "the region was evicted")
	verifAssert(reg.AvailabilityChan() == nil, "the evicted region's waiters are released")
	verifAssert(r1.done && r1.err == nil, "the waiting request completes against the successor")
	for _, r := range vTreeContents(&c.regions) {
		if r.Context().Err() == nil {
			verifAssert(!r.IsUnavailable(), "no live cached region remains marked unavailable")
		}
	}
	verifAssert(verifGoroutines() == 0, "no goroutine is left running or blocked")
	verifReach("evicted")
}

// VerifReplacementRace: the establisher of a region in outage looks the region up and finds
// that it was replaced (split / merge / re-creation); while it puts the replacement into the
// cache and goes on to establish it, a request for a key of the replacement arrives (every
// interleaving within the delay bound): the replacement is established by one establisher, its
// waiters are released exactly once (a second release is a close of a nil channel), the
// request completes.
func VerifReplacementRace() {
	c, e := vCluSetup()
	reg := vMkRegion(0, 1, nil, nil)
	c.regions.put(reg)
	reg.MarkUnavailable()
	newer := vMkRegion(0, 7, nil, nil)
	e.replacedFor[""], e.replaced = newer, newer // hbase:meta lists the successor
	fin := make(chan struct{}, 1)
	var r1 vUserResult
	go c.establishRegion(reg, "")
	go vUserGet(c, context.Background(), "k", &r1, fin)
	<-fin
	verifQuiesce()
	sleepAndIncreaseBackoffOverride = nil
	verifAssert(r1.done && r1.err == nil, "the request completes against the replacement")
	for _, r := range vTreeContents(&c.regions) {
		if r.Context().Err() == nil {
			verifAssert(!r.IsUnavailable() && r.Client() != nil, "no live cached region remains unavailable or without a connection")
		}
	}
	verifAssert(verifGoroutines() == 0, "no goroutine is left running or blocked")
	verifReach("replaced-under-load")
}

// VerifProbeRetryLater (C20): region A is online on the connection to rs0; region B of the same
// server is being established and its first probes are answered "retry later" (still opening,
// call queue full) - an answer from a healthy connection: no second connection to rs0 is opened,
// A keeps its connection, B ends up on the same one.
func VerifProbeRetryLater() {
	c, e := vCluSetup()
	ra, rb := vMkRegion(0, 1, nil, []byte("m")), vMkRegion(0, 2, []byte("m"), nil)
	e.twoRegions = true
	shared := e.factory("rs0:1", "", 0, 0, "", 0, nil, nil, nil)
	c.regions.put(ra)
	ra.SetClient(c.clients.put("rs0:1", ra, func() hrpc.RegionClient { return shared }))
	c.regions.put(rb)
	rb.MarkUnavailable()
	e.probeRetry = verifInt(1, 2)
	if verifBool() {
		c.establishRegion(rb, "rs0:1")
	} else {
		c.establishRegion(rb, "") // the address comes from hbase:meta
	}
	verifQuiesce()
	sleepAndIncreaseBackoffOverride = nil
	verifAssert(e.made["rs0:1"] == 1, "no second connection to the regionserver is opened")
	verifAssert(shared.(*vCluRC).closed == 0, "the healthy connection stays open")
	verifAssert(ra.Client() == shared && !ra.IsUnavailable(), "the region that was online keeps its connection")
	verifAssert(rb.Client() == shared && !rb.IsUnavailable(), "the region being established ends up on the same connection")
	verifAssert(verifGoroutines() == 0, "no goroutine is left running or blocked")
	verifReach("retried-later")
}

// VerifRegionMoved (C04): the region moved to another server while hbase:meta still lists the
// old one for the next 0..STALE lookups: the request ends up served by the new server.
func VerifRegionMoved() {
	c, e := vCluSetup()
	reg := vMkRegion(0, 1, nil, nil)
	c.regions.put(reg)
	reg.SetClient(c.clients.put("rs0:1", reg, func() hrpc.RegionClient { return e.factory("rs0:1", "", 0, 0, "", 0, nil, nil, nil) }))
	e.moved = true
	e.stale = verifInt(0, verifParam("STALE"))
	var res vUserResult
	vUserGet(c, context.Background(), "k", &res, nil)
	verifQuiesce()
	sleepAndIncreaseBackoffOverride = nil
	verifAssert(res.done && res.err == nil, "the request succeeds once hbase:meta lists the new server")
	verifAssert(reg.Client() != nil && reg.Client().Addr() == "rs1:1", "the region is served by the server that hosts it now")
	verifAssert(verifGoroutines() == 0, "no goroutine is left")
	verifReach("moved")
}

// VerifConcurrentFailureReports (C09): two requests report a failure of the same, currently
// available region at the same time (two not-serving answers, or a not-serving answer and a
// dead connection): under every interleaving each outage has one establisher, its waiters are
// released exactly once (a second release is a close of a nil channel: a crash), and the
// region ends up available.
func VerifConcurrentFailureReports() {
	c, e := vCluSetup()
	reg := vMkRegion(0, 1, nil, nil)
	c.regions.put(reg)
	rc := e.factory("rs0:1", "", 0, 0, "", 0, nil, nil, nil)
	reg.SetClient(c.clients.put("rs0:1", reg, func() hrpc.RegionClient { return rc }))
	starts := 0
	establishRegionOverride = func(r hrpc.RegionInfo, addr string) {
		starts++
		verifYield()
		r.SetClient(rc)
		r.MarkAvailable()
	}
	fin := make(chan struct{}, 2)
	for i := 0; i < 2; i++ {
		var err error = region.NotServingRegionError{}
		if i == 1 && verifBool() {
			err = region.ServerError{}
		}
		go func() {
			c.handleResultError(err, reg, rc)
			fin <- struct{}{}
		}()
	}
	<-fin
	<-fin
	verifQuiesce()
	establishRegionOverride, sleepAndIncreaseBackoffOverride = nil, nil
	verifAssert(starts >= 1 && starts <= 2, "every outage of the region has one establisher")
	verifAssert(!reg.IsUnavailable(), "the region ends up available")
	verifAssert(verifGoroutines() == 0, "no goroutine is left")
	verifReach("reported")
}
