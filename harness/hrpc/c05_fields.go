package hrpc

import (
	"context"
	"math"
	"time"

	"github.com/tsuna/gohbase/pb"
)

// C05 / C10 — "decoding a frame yields exactly the operation the caller built": the mapping from
// the caller's options to the request message, for symbolic option values.
// Real code: NewGet / NewScanRange / NewPut / NewDel / NewApp / NewInc, every option function,
// (*Get).ToProto, (*Scan).ToProto, (*Mutate).toProto (both encodings), familiesToColumn,
// regionSpecifier. The oracle is written against the HBase protocol's reading of a message
// (an absent optional field means its protocol default).

// vColumnsMatch: the Column list denotes exactly the requested families/qualifiers.
func vColumnsMatch(cols []*pb.Column, fams map[string][]string) bool {
	if len(cols) != len(fams) {
		return false
	}
	for _, c := range cols {
		qs, ok := fams[string(c.Family)]
		if !ok || len(qs) != len(c.Qualifier) {
			return false
		}
		for i, q := range qs {
			if string(c.Qualifier[i]) != q {
				return false
			}
		}
	}
	return true
}

type vQueryOpts struct {
	fams                       map[string][]string
	hasRange                   bool
	from, to                   uint64
	versions, limit, offset    uint32
	hasVers, hasLimit, hasOffs bool
	cache, hasCache            bool
	timeline                   bool
	prio                       uint32
}

// vPick: which of n options are given: none, exactly one of them, or all of them together
// (every option alone and all in combination, instead of all 2^n subsets).
func vPick(n int) func(i int) bool {
	mode := verifChoose(n + 2)
	return func(i int) bool { return mode == n+1 || mode == i+1 }
}

func vQueryOptions() (vQueryOpts, []func(Call) error) {
	var o vQueryOpts
	var opts []func(Call) error
	given := vPick(8)
	if given(0) {
		if verifBool() {
			o.fams = map[string][]string{"f": nil}
		} else {
			o.fams = map[string][]string{"f": {"q", ""}, "g": {"x"}}
		}
		opts = append(opts, Families(o.fams))
	}
	if o.hasRange = given(1); o.hasRange {
		o.from, o.to = verifU64(), verifU64()
		verifAssume(o.from < o.to)
		opts = append(opts, TimeRangeUint64(o.from, o.to))
	}
	if o.hasVers = given(2); o.hasVers {
		o.versions = verifU32()
		verifAssume(o.versions <= math.MaxInt32)
		opts = append(opts, MaxVersions(o.versions))
	}
	if o.hasLimit = given(3); o.hasLimit {
		o.limit = verifU32()
		verifAssume(o.limit <= math.MaxInt32)
		opts = append(opts, MaxResultsPerColumnFamily(o.limit))
	}
	if o.hasOffs = given(4); o.hasOffs {
		o.offset = verifU32()
		verifAssume(o.offset <= math.MaxInt32)
		opts = append(opts, ResultOffset(o.offset))
	}
	if o.hasCache = given(5); o.hasCache {
		o.cache = verifBool()
		opts = append(opts, CacheBlocks(o.cache))
	}
	if o.timeline = given(6); o.timeline {
		opts = append(opts, Consistency(TimelineConsistency))
	}
	if given(7) {
		o.prio = verifU32()
		verifAssume(o.prio != 0)
		opts = append(opts, Priority(o.prio))
	}
	return o, opts
}

// vCheckQuery: the fields common to Get and Scan, read the way the server reads them.
func vCheckQuery(o vQueryOpts, cols []*pb.Column, tr *pb.TimeRange, maxVersions, storeLimit, storeOffset *uint32,
	cacheBlocks *bool, cons *pb.Consistency) {
	verifAssert(vColumnsMatch(cols, o.fams), "the request names exactly the requested families and qualifiers")
	from, to := uint64(0), uint64(math.MaxUint64)
	if o.hasRange {
		from, to = o.from, o.to
	}
	gotFrom, gotTo := uint64(0), uint64(math.MaxInt64) // protocol defaults: [0, Long.MAX_VALUE)
	if tr != nil && tr.From != nil {
		gotFrom = *tr.From
	}
	if tr != nil && tr.To != nil {
		gotTo = *tr.To
	}
	verifAssert(gotFrom == from, "the time range starts where the caller said")
	verifAssert(gotTo == to || (to == math.MaxUint64 && (tr == nil || tr.To == nil)), "the time range ends where the caller said")
	wantV := uint32(1)
	if o.hasVers {
		wantV = o.versions
	}
	gotV := uint32(1)
	if maxVersions != nil {
		gotV = *maxVersions
	}
	verifAssert(gotV == wantV, "max versions is what the caller asked for (1 by default)")
	if o.hasLimit && o.limit != DefaultMaxResultsPerColumnFamily {
		verifAssert(storeLimit != nil && *storeLimit == o.limit, "the per-family limit is what the caller asked for")
	} else {
		verifAssert(storeLimit == nil || *storeLimit == DefaultMaxResultsPerColumnFamily, "no per-family limit unless asked for")
	}
	wantOff := uint32(0)
	if o.hasOffs {
		wantOff = o.offset
	}
	gotOff := uint32(0)
	if storeOffset != nil {
		gotOff = *storeOffset
	}
	verifAssert(gotOff == wantOff, "the per-family offset is what the caller asked for")
	wantCache := true
	if o.hasCache {
		wantCache = o.cache
	}
	gotCache := true
	if cacheBlocks != nil {
		gotCache = *cacheBlocks
	}
	verifAssert(gotCache == wantCache, "block caching is what the caller asked for (on by default)")
	gotTimeline := cons != nil && *cons == pb.Consistency_TIMELINE
	verifAssert(gotTimeline == o.timeline, "the consistency is what the caller asked for")
}

// VerifGetFields: every Get the options can build.
func VerifGetFields() {
	o, opts := vQueryOptions()
	key := verifBytes(2)
	g, err := NewGet(context.Background(), []byte("t"), key, opts...)
	verifAssert(err == nil, "valid options are accepted")
	exists := verifBool()
	if exists {
		g.ExistsOnly()
	}
	g.SetRegion(vRegion{})
	r := g.ToProto().(*pb.GetRequest)
	verifAssert(r.Region != nil && string(r.Region.Value) == "t,,1" && r.Region.GetType() == pb.RegionSpecifier_REGION_NAME,
		"the request names the region it is assigned to")
	verifAssert(vEq(r.Get.Row, key), "the get addresses the caller's row")
	vCheckQuery(o, r.Get.Column, r.Get.TimeRange, r.Get.MaxVersions, r.Get.StoreLimit, r.Get.StoreOffset, r.Get.CacheBlocks, r.Get.Consistency)
	verifAssert(r.Get.GetExistenceOnly() == exists, "existence-only exactly when asked for")
	verifAssert(r.Get.Filter == nil, "no filter unless asked for")
	verifAssert(GetPriority(g) == o.prio, "the priority is what the caller asked for")
	verifAssert(string(g.Name()) == "Get", "method name")
	verifReach("get")
}

// VerifScanFields: every Scan the options can build (first request of a scan, and the
// continuation / close / renew forms that name a scanner id).
func VerifScanFields() {
	o, opts := vQueryOptions()
	start, stop := verifBytes(2), verifBytes(2)
	given := vPick(9)
	reversed := given(0)
	if reversed {
		opts = append(opts, Reversed())
	}
	rows := verifU32()
	hasRows := given(1)
	if hasRows {
		opts = append(opts, NumberOfRows(rows))
	}
	size := verifU64()
	hasSize := given(2)
	if hasSize {
		verifAssume(size > 0)
		opts = append(opts, MaxResultSize(size))
	}
	closeIt := given(3)
	if closeIt {
		opts = append(opts, CloseScanner())
	}
	renew := given(4)
	if renew {
		opts = append(opts, RenewalScan())
	}
	hasID := given(5)
	id := verifU64()
	if hasID {
		verifAssume(id != math.MaxUint64)
		opts = append(opts, ScannerID(id))
	}
	partials := given(6)
	if partials {
		opts = append(opts, AllowPartialResults())
	}
	attr := given(7)
	if attr {
		opts = append(opts, Attribute("k", []byte("v")))
	}
	interval := given(8)
	if interval {
		opts = append(opts, RenewInterval(time.Second))
	}
	s, err := NewScanRange(context.Background(), []byte("t"), start, stop, opts...)
	verifAssert(err == nil, "valid options are accepted")
	s.SetRegion(vRegion{})
	r := s.ToProto().(*pb.ScanRequest)
	verifAssert(r.Region != nil && string(r.Region.Value) == "t,,1", "the request names the region it is assigned to")
	verifAssert(r.GetCloseScanner() == closeIt, "close-scanner exactly when asked for")
	verifAssert(r.GetRenew() == renew, "renew exactly when asked for")
	wantRows := uint32(DefaultNumberOfRows)
	if hasRows {
		wantRows = rows
	}
	verifAssert(r.NumberOfRows != nil && *r.NumberOfRows == wantRows, "the number of rows per response is what the caller asked for")
	verifAssert(r.GetClientHandlesPartials() && r.GetClientHandlesHeartbeats(), "the client declares that it handles partials and heart-beats")
	verifAssert(s.AllowPartialResults() == partials && s.Reversed() == reversed, "the scan remembers how its results are to be assembled")
	verifAssert((s.RenewInterval() == time.Second) == interval, "the renew interval is what the caller asked for")
	if hasID {
		verifAssert(r.ScannerId != nil && *r.ScannerId == id, "a continuation names the scanner")
		verifReach("scan-continuation")
		return
	}
	verifAssert(r.ScannerId == nil, "an opening request names no scanner")
	verifAssert(r.Scan != nil && vEq(r.Scan.StartRow, start) && vEq(r.Scan.StopRow, stop), "the scan covers the caller's range")
	verifAssert(r.Scan.GetReversed() == reversed, "the direction is what the caller asked for")
	wantSize := uint64(DefaultMaxResultSize)
	if hasSize {
		wantSize = size
	}
	verifAssert(r.Scan.MaxResultSize != nil && *r.Scan.MaxResultSize == wantSize, "the maximum result size is what the caller asked for")
	vCheckQuery(o, r.Scan.Column, r.Scan.TimeRange, r.Scan.MaxVersions, r.Scan.StoreLimit, r.Scan.StoreOffset, r.Scan.CacheBlocks, r.Scan.Consistency)
	if attr {
		verifAssert(len(r.Scan.Attribute) == 1 && r.Scan.Attribute[0].GetName() == "k" && string(r.Scan.Attribute[0].Value) == "v", "attributes are passed on")
	} else {
		verifAssert(len(r.Scan.Attribute) == 0, "no attribute unless asked for")
	}
	verifAssert(r.Scan.Filter == nil, "no filter unless asked for")
	verifAssert(GetPriority(s) == o.prio, "the priority is what the caller asked for")
	verifReach("scan-open")
}

// VerifMutateFields: row, kind, durability, TTL, timestamp and values of a mutation as the
// caller gave them, in both encodings.
func VerifMutateFields() {
	var opts []func(Call) error
	hasTs := verifBool()
	ts := verifU64()
	if hasTs {
		verifAssume(ts != math.MaxUint64)
		opts = append(opts, TimestampUint64(ts))
	}
	dur := verifInt(-1, 4) // -1: option not given
	if dur >= 0 {
		opts = append(opts, Durability(DurabilityType(dur)))
	}
	hasTTL := verifBool()
	ttlMs := uint32(90061001) // concrete: TTL divides a 64-bit duration by a constant
	if hasTTL {
		opts = append(opts, TTL(time.Duration(ttlMs)*time.Millisecond+999*time.Microsecond))
	}
	val := verifBytes(2)
	values := map[string]map[string][]byte{"f": {"q": val}}
	key := verifBytes(2)
	kind := verifChoose(4)
	var m *Mutate
	var err error
	ctx := context.Background()
	var wantType pb.MutationProto_MutationType
	switch kind {
	case 0:
		m, err = NewPut(ctx, []byte("t"), key, values, opts...)
		wantType = pb.MutationProto_PUT
	case 1:
		m, err = NewDel(ctx, []byte("t"), key, values, opts...)
		wantType = pb.MutationProto_DELETE
	case 2:
		m, err = NewApp(ctx, []byte("t"), key, values, opts...)
		wantType = pb.MutationProto_APPEND
	default:
		m, err = NewInc(ctx, []byte("t"), key, values, opts...)
		wantType = pb.MutationProto_INCREMENT
	}
	verifAssert(err == nil, "valid options are accepted")
	m.SetRegion(vRegion{})
	for _, cellblocks := range []bool{false, true} {
		r, cbs, _ := m.toProto(cellblocks, nil)
		verifAssert(r.Region != nil && string(r.Region.Value) == "t,,1", "the request names the region it is assigned to")
		mp := r.Mutation
		verifAssert(vEq(mp.Row, key), "the mutation addresses the caller's row")
		verifAssert(mp.GetMutateType() == wantType, "the mutation is of the kind the caller built")
		wantDur := pb.MutationProto_USE_DEFAULT
		if dur >= 0 {
			wantDur = pb.MutationProto_Durability(dur)
		}
		verifAssert(mp.GetDurability() == wantDur, "the durability is what the caller asked for")
		if hasTs {
			verifAssert(mp.Timestamp != nil && *mp.Timestamp == ts, "the mutation carries the caller's timestamp")
		} else {
			verifAssert(mp.Timestamp == nil, "no timestamp unless asked for")
		}
		if hasTTL {
			verifAssert(len(mp.Attribute) == 1 && mp.Attribute[0].GetName() == "_ttl" && len(mp.Attribute[0].Value) == 8 &&
				vU64(mp.Attribute[0].Value) == uint64(ttlMs), "the TTL attribute is the caller's TTL in milliseconds")
		} else {
			verifAssert(len(mp.Attribute) == 0, "no attribute unless asked for")
		}
		wantCellTs := uint64(math.MaxInt64)
		if hasTs {
			wantCellTs = ts
		}
		if !cellblocks {
			verifAssert(len(mp.ColumnValue) == 1 && string(mp.ColumnValue[0].Family) == "f" && len(mp.ColumnValue[0].QualifierValue) == 1,
				"one family, one qualifier")
			qv := mp.ColumnValue[0].QualifierValue[0]
			verifAssert(string(qv.Qualifier) == "q" && vEq(qv.Value, val), "the cell carries the caller's qualifier and value")
			if hasTs {
				verifAssert(qv.Timestamp != nil && *qv.Timestamp == ts, "the cell carries the caller's timestamp")
			} else {
				verifAssert(qv.Timestamp == nil || *qv.Timestamp == math.MaxInt64, "the cell carries no timestamp unless asked for")
			}
			continue
		}
		verifAssert(mp.GetAssociatedCellCount() == 1 && len(cbs) == 1, "one cell in the cellblock")
		c, n, err := cellFromCellBlock(cbs[0])
		verifAssert(err == nil && int(n) == len(cbs[0]), "the cellblock is one whole cell")
		verifAssert(vEq(c.Row, key) && string(c.Family) == "f" && string(c.Qualifier) == "q" && vEq(c.Value, val),
			"the cell carries the caller's row, family, qualifier and value")
		verifAssert(*c.Timestamp == wantCellTs, "the cell carries the caller's timestamp (LATEST if none)")
		if kind == 1 {
			verifAssert(*c.CellType == pb.CellType_DELETE_COLUMN, "a delete of a qualifier deletes all its versions")
		} else {
			verifAssert(*c.CellType == pb.CellType_PUT, "puts, appends and increments carry put cells")
		}
	}
	verifReach("mutate")
}

func vU64(b []byte) uint64 {
	var v uint64
	for i := 0; i < 8; i++ {
		v = v<<8 | uint64(b[i])
	}
	return v
}

// VerifTimeOptions: the time.Time forms of the options denote milliseconds since the epoch
// (concrete instants: the conversion divides a 64-bit count of nanoseconds by a constant).
func VerifTimeOptions() {
	from, to := time.Unix(12, 345678901), time.Unix(99, 999999999)
	g, err := NewGet(context.Background(), []byte("t"), []byte("k"), TimeRange(from, to))
	verifAssert(err == nil, "a valid range is accepted")
	g.SetRegion(vRegion{})
	tr := g.ToProto().(*pb.GetRequest).Get.TimeRange
	verifAssert(tr.GetFrom() == 12345 && tr.GetTo() == 99999, "a time range is sent in milliseconds, rounded down")
	_, err = NewGet(context.Background(), []byte("t"), []byte("k"), TimeRange(to, from))
	verifAssert(err != nil, "an empty range is rejected")
	m, err := NewPut(context.Background(), []byte("t"), []byte("k"), map[string]map[string][]byte{"f": {"q": []byte("v")}},
		Timestamp(time.Unix(7, 654321000)))
	verifAssert(err == nil, "a timestamp is accepted")
	m.SetRegion(vRegion{})
	r, _, _ := m.toProto(false, nil)
	verifAssert(r.Mutation.GetTimestamp() == 7654 && r.Mutation.ColumnValue[0].QualifierValue[0].GetTimestamp() == 7654,
		"a timestamp is sent in milliseconds, rounded down")
	verifReach("times")
}
