package hrpc

// C10-H1 — a cell serialised by the client's writer decodes, by the client's reader and by
// an independent KeyValue decoder, to the identical fields, consuming exactly the bytes
// written. Real code: appendCellblock, cellblockLen, cellFromCellBlock, binary.BigEndian.

type vKV struct {
	row, fam, qual, val []byte
	ts                  uint64
	typ                 byte
	n                   int
	ok                  bool
}

func vBE(b []byte, n int) uint64 {
	var v uint64
	for i := 0; i < n; i++ {
		v = v<<8 | uint64(b[i])
	}
	return v
}

// vDecodeKV is an independent decoder written from the HBase KeyValue layout:
// int32 kvlen | int32 keylen | int32 vallen | int16 rowlen | row | int8 famlen | fam | qual |
// int64 ts | int8 type | value
func vDecodeKV(b []byte) vKV {
	if len(b) < 12 {
		return vKV{}
	}
	kvlen := int(vBE(b, 4))
	keylen := int(vBE(b[4:], 4))
	vallen := int(vBE(b[8:], 4))
	if kvlen != 8+keylen+vallen || len(b) < 4+kvlen || keylen < 12 {
		return vKV{}
	}
	key := b[12 : 12+keylen]
	rowlen := int(vBE(key, 2))
	if 2+rowlen+1 > keylen-9 {
		return vKV{}
	}
	row := key[2 : 2+rowlen]
	famlen := int(key[2+rowlen])
	if 2+rowlen+1+famlen > keylen-9 {
		return vKV{}
	}
	fam := key[3+rowlen : 3+rowlen+famlen]
	qual := key[3+rowlen+famlen : keylen-9]
	ts := vBE(key[keylen-9:], 8)
	typ := key[keylen-1]
	val := b[12+keylen : 12+keylen+vallen]
	return vKV{row: row, fam: fam, qual: qual, val: val, ts: ts, typ: typ, n: 4 + kvlen, ok: true}
}

func vEq(a, b []byte) bool {
	if len(a) != len(b) {
		return false
	}
	for i := range a {
		if a[i] != b[i] {
			return false
		}
	}
	return true
}

func VerifCellRoundTrip() {
	F := verifParam("F")
	row := verifBytes(F)
	fam := verifBytes(F)
	qual := verifBytes(F)
	val := verifBytes(F)
	ts := verifU64()
	typ := verifU8()
	prefix := verifBytesCap(verifParam("P"), verifParam("PX"))
	keep := append([]byte{}, prefix...)

	out := appendCellblock(row, string(fam), string(qual), val, ts, typ, prefix)
	want := cellblockLen(len(row), len(fam), len(qual), len(val))
	verifAssert(len(out) == len(keep)+want, "writer appends exactly cellblockLen bytes")
	verifAssert(vEq(out[:len(keep)], keep), "bytes already in the buffer are untouched")
	cellb := out[len(keep):]
	verifObserveBytes("cell", cellb)

	c, n, err := cellFromCellBlock(cellb)
	verifAssert(err == nil, "client decoder accepts what the client wrote")
	verifAssert(int(n) == want, "client decoder consumes exactly the bytes written")
	verifAssert(vEq(c.Row, row) && vEq(c.Family, fam) && vEq(c.Qualifier, qual) && vEq(c.Value, val),
		"client decoder returns the identical row, family, qualifier and value")
	verifAssert(c.Timestamp != nil && *c.Timestamp == ts, "client decoder returns the identical timestamp")
	verifAssert(c.CellType != nil && byte(*c.CellType) == typ, "client decoder returns the identical type")

	kv := vDecodeKV(cellb)
	verifAssert(kv.ok, "independent KeyValue decoder accepts what the client wrote")
	verifAssert(kv.n == want, "independent decoder consumes exactly the bytes written")
	verifAssert(vEq(kv.row, row) && vEq(kv.fam, fam) && vEq(kv.qual, qual) && vEq(kv.val, val),
		"independent decoder returns the identical row, family, qualifier and value")
	verifAssert(kv.ts == ts && kv.typ == typ, "independent decoder returns the identical timestamp and type")
	verifReach("roundtrip")
}

// VerifCellBoundary: the round trip at the documented limits of the length fields — a row of
// ROW bytes (16-bit length) and a family of FAM bytes (8-bit length) — with symbolic bytes at
// both ends of every field, a symbolic timestamp and type.
func VerifCellBoundary() {
	mk := func(n int) []byte {
		b := make([]byte, n)
		if n > 0 {
			b[0] = verifU8()
			b[n-1] = verifU8()
		}
		return b
	}
	row, fam := mk(verifParam("ROW")), mk(verifParam("FAM"))
	qual, val := mk(2), mk(2)
	ts, typ := verifU64(), verifU8()
	out := appendCellblock(row, string(fam), string(qual), val, ts, typ, nil)
	want := cellblockLen(len(row), len(fam), len(qual), len(val))
	verifAssert(len(out) == want, "writer appends exactly cellblockLen bytes")
	c, n, err := cellFromCellBlock(out)
	verifAssert(err == nil && int(n) == want, "client decoder accepts and consumes exactly what was written")
	verifAssert(vEq(c.Row, row) && vEq(c.Family, fam) && vEq(c.Qualifier, qual) && vEq(c.Value, val),
		"client decoder returns the identical fields at the length limits")
	verifAssert(*c.Timestamp == ts && byte(*c.CellType) == typ, "identical timestamp and type")
	kv := vDecodeKV(out)
	verifAssert(kv.ok && kv.n == want && vEq(kv.row, row) && vEq(kv.fam, fam) && vEq(kv.qual, qual) && vEq(kv.val, val),
		"independent decoder returns the identical fields at the length limits")
	verifReach("boundary")
}
