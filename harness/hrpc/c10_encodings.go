package hrpc

import (
	"context"
	"math"

	"github.com/tsuna/gohbase/pb"
)

// C10-H3 — the protobuf form and the cellblock form of the same mutation denote the same set
// of cells. Real code: New{Put,Del,App,Inc}, option functions, (*Mutate).toProto,
// valuesToProto, valuesToCellblocks, appendCellblock, cellblockLen, cellFromCellBlock.

type vCell struct {
	fam, qual, val []byte
	ts             uint64
	typ            byte
}

// vInner builds one family's qualifier map: nil, empty, or 1..2 qualifiers with nil / empty /
// symbolic values.
func vInner(maxQ int) map[string][]byte {
	switch verifChoose(2 + maxQ) {
	case 0:
		return nil
	case 1:
		return map[string][]byte{}
	case 2:
		return map[string][]byte{"q": vValue()}
	}
	return map[string][]byte{"q": vValue(), "": vValue()}
}

func vValue() []byte {
	switch verifChoose(3) {
	case 0:
		return nil
	case 1:
		return []byte{}
	}
	return verifBytesN(1)
}

func vDeleteKind(dt *pb.MutationProto_DeleteType) byte {
	if dt == nil {
		return putType
	}
	switch *dt {
	case pb.MutationProto_DELETE_ONE_VERSION:
		return 8
	case pb.MutationProto_DELETE_MULTIPLE_VERSIONS:
		return 12
	case pb.MutationProto_DELETE_FAMILY:
		return 14
	case pb.MutationProto_DELETE_FAMILY_VERSION:
		return 10
	}
	return 0
}

func VerifTwoEncodings() {
	// the mutation
	var values map[string]map[string][]byte
	nf := verifChoose(verifParam("FAMS") + 2) // 0: nil map, 1: empty map, 2..: families
	switch nf {
	case 0:
	case 1:
		values = map[string]map[string][]byte{}
	default:
		values = map[string]map[string][]byte{}
		names := []string{"f", "", "gg"}
		for i := 0; i < nf-1; i++ {
			values[names[i]] = vInner(verifParam("QUALS"))
		}
	}
	var opts []func(Call) error
	hasTs := verifBool()
	ts := verifU64()
	if hasTs {
		opts = append(opts, TimestampUint64(ts))
	}
	kind := verifChoose(4)
	oneVersion := false
	if kind == 1 && verifBool() {
		oneVersion = true
		opts = append(opts, DeleteOneVersion())
	}
	key := verifBytes(2)
	var m *Mutate
	var err error
	ctx := context.Background()
	switch kind {
	case 0:
		m, err = NewPut(ctx, []byte("t"), key, values, opts...)
	case 1:
		m, err = NewDel(ctx, []byte("t"), key, values, opts...)
	case 2:
		m, err = NewApp(ctx, []byte("t"), key, values, opts...)
	default:
		m, err = NewInc(ctx, []byte("t"), key, values, opts...)
	}
	if err != nil {
		verifAssert(kind == 1 && oneVersion && len(values) == 0, "only delete-row with DeleteOneVersion is rejected")
		return
	}
	m.SetRegion(vRegion{})

	// protobuf form
	preq, _, _ := m.toProto(false, nil)
	var want []vCell
	for _, cv := range preq.Mutation.ColumnValue {
		for _, qv := range cv.QualifierValue {
			c := vCell{fam: cv.Family, qual: qv.Qualifier, val: qv.Value, ts: math.MaxInt64, typ: vDeleteKind(qv.DeleteType)}
			if qv.Timestamp != nil {
				c.ts = *qv.Timestamp
			}
			if kind != 1 {
				verifAssert(qv.DeleteType == nil, "non-delete mutations carry no delete type")
			}
			want = append(want, c)
		}
	}

	// cellblock form
	creq, cbs, size := m.toProto(true, nil)
	verifAssert(len(creq.Mutation.ColumnValue) == 0, "cellblock form carries no column values in the protobuf")
	verifAssert(creq.Mutation.AssociatedCellCount != nil, "cellblock form declares its cell count")
	var got []vCell
	total := 0
	for _, b := range cbs {
		total += len(b)
		for len(b) > 0 {
			c, n, err := cellFromCellBlock(b)
			verifAssert(err == nil, "every written cell decodes")
			verifAssert(vEq(c.Row, key), "every cell carries the mutation's row")
			got = append(got, vCell{fam: c.Family, qual: c.Qualifier, val: c.Value, ts: *c.Timestamp, typ: byte(*c.CellType)})
			b = b[n:]
		}
	}
	verifAssert(uint32(total) == size, "declared cellblock size equals the bytes produced")
	verifAssert(int(*creq.Mutation.AssociatedCellCount) == len(got), "associated_cell_count equals the cells written")
	verifAssert(len(got) == len(want), "both encodings denote the same number of cells")
	verifObserveInt("cells", len(got))
	for _, w := range want {
		found := false
		for _, g := range got {
			if vEq(g.fam, w.fam) && vEq(g.qual, w.qual) {
				found = true
				verifAssert(vEq(g.val, w.val), "same value in both encodings")
				verifAssert(g.ts == w.ts, "same timestamp in both encodings (nil <-> LATEST)")
				verifAssert(g.typ == w.typ, "same put/delete kind in both encodings")
			}
		}
		verifAssert(found, "every protobuf cell has a cellblock counterpart")
	}
	// serialising again (a retry, a re-batch) denotes the same cells again
	preq2, _, _ := m.toProto(false, nil)
	n2 := 0
	for _, cv := range preq2.Mutation.ColumnValue {
		for _, qv := range cv.QualifierValue {
			n2++
			found := false
			for _, w := range want {
				if vEq(w.fam, cv.Family) && vEq(w.qual, qv.Qualifier) {
					found = true
					verifAssert(w.typ == vDeleteKind(qv.DeleteType), "a second serialisation keeps the put/delete kinds")
				}
			}
			verifAssert(found, "a second serialisation denotes the same cells")
		}
	}
	verifAssert(n2 == len(want), "a second serialisation denotes the same number of cells")
	// both forms address the same row, mutation type, timestamp and durability
	verifAssert(vEq(preq.Mutation.Row, creq.Mutation.Row) && *preq.Mutation.MutateType == *creq.Mutation.MutateType,
		"same row and mutation type")
	verifAssert((preq.Mutation.Timestamp == nil) == (creq.Mutation.Timestamp == nil), "same mutation timestamp presence")
	verifReach("compared")
}

type vRegion struct{ RegionInfo }

func (vRegion) Name() []byte { return []byte("t,,1") }
