package hrpc

import (
	"github.com/tsuna/gohbase/pb"
)

// C11 (hrpc layer) — arbitrary bytes in the position of a cellblock, and structurally valid
// response messages whose counts are inconsistent with the data, cannot make the decoders
// panic or read outside the received data. Real code: cellFromCellBlock,
// deserializeCellBlocks, (*Get|*Mutate|*Scan).DeserializeCellBlocks.

// vCellInside asserts that a decoded cell describes n bytes of b and nothing outside it.
func vCellInside(c *pb.Cell, n uint32, b []byte) {
	verifAssert(c != nil, "decoded cell is non-nil")
	verifAssert(int(n) <= len(b), "decoder consumed no more than the buffer holds")
	used := 4 + 4 + 4 + 2 + len(c.Row) + 1 + len(c.Family) + len(c.Qualifier) + 8 + 1 + len(c.Value)
	verifAssert(used == int(n), "cell fields account for exactly the bytes consumed")
}

// VerifCellParser: any buffer (exact allocation: cap == len, as for a received frame).
func VerifCellParser() {
	b := verifBytes(verifParam("N"))
	c, n, err := cellFromCellBlock(b)
	verifObserveBool("err", err != nil)
	if err == nil {
		verifReach("decoded")
		vCellInside(c, n, b)
		verifObserveInt("n", int(n))
		verifObserveBytes("row", c.Row)
		verifObserveBytes("value", c.Value)
	}
}

// VerifCellParserSlack: the same with spare capacity behind the buffer (a cell in the middle
// of a larger frame): success must still describe bytes inside len(b) only.
func VerifCellParserSlack() {
	b := verifBytesCap(verifParam("N"), verifParam("X"))
	c, n, err := cellFromCellBlock(b)
	if err == nil {
		verifReach("decoded")
		vCellInside(c, n, b)
	}
}

// VerifDeserializeBlocks: a cell count from the wire that does not match the data.
func VerifDeserializeBlocks() {
	b := verifBytes(verifParam("N"))
	count := verifU32()
	verifAssume(count <= uint32(verifParam("MAXCELLS"))) // allocation size is outside the claim
	cells, n, err := deserializeCellBlocks(b, count)
	if err == nil {
		verifReach("decoded")
		verifAssert(len(cells) == int(count), "one cell per declared count")
		verifAssert(int(n) <= len(b), "consumed no more than the buffer holds")
		for _, c := range cells {
			verifAssert(c != nil, "no nil cell")
		}
	}
}

func vResult() *pb.Result {
	if verifChoose(2) == 0 {
		return nil
	}
	r := &pb.Result{}
	if verifChoose(2) == 1 {
		n := verifI32()
		verifAssume(n <= int32(verifParam("MAXCELLS"))) // negative allowed: huge after uint32 conversion is cut by the assumption below
		verifAssume(n >= -1)
		r.AssociatedCellCount = &n
	}
	return r
}

// VerifGetMutateDeserialize: Get and Mutate responses with an arbitrary associated_cell_count.
func VerifGetMutateDeserialize() {
	b := verifBytes(verifParam("N"))
	var n uint32
	var err error
	var got int
	if verifChoose(2) == 0 {
		resp := &pb.GetResponse{Result: vResult()}
		if resp.Result != nil && resp.Result.AssociatedCellCount != nil {
			verifAssume(*resp.Result.AssociatedCellCount >= 0) // 2^32-1 cells: allocation size, outside the claim
		}
		n, err = (&Get{}).DeserializeCellBlocks(resp, b)
		if resp.Result != nil {
			got = len(resp.Result.Cell)
		}
	} else {
		resp := &pb.MutateResponse{Result: vResult()}
		if resp.Result != nil && resp.Result.AssociatedCellCount != nil {
			verifAssume(*resp.Result.AssociatedCellCount >= 0)
		}
		n, err = (&Mutate{}).DeserializeCellBlocks(resp, b)
		if resp.Result != nil {
			got = len(resp.Result.Cell)
		}
	}
	if err == nil {
		verifReach("decoded")
		verifAssert(int(n) <= len(b), "consumed no more than the buffer holds")
		verifObserveInt("cells", got)
	}
}

// VerifScanDeserialize: cells_per_result and partial_flag_per_result of independent lengths.
func VerifScanDeserialize() {
	b := verifBytes(verifParam("N"))
	resp := &pb.ScanResponse{}
	nc := verifChoose(verifParam("R") + 1)
	np := verifChoose(verifParam("R") + 1)
	for i := 0; i < nc; i++ {
		c := verifU32()
		verifAssume(c <= uint32(verifParam("MAXCELLS")))
		resp.CellsPerResult = append(resp.CellsPerResult, c)
	}
	for i := 0; i < np; i++ {
		resp.PartialFlagPerResult = append(resp.PartialFlagPerResult, verifBool())
	}
	n, err := (&Scan{}).DeserializeCellBlocks(resp, b)
	if err == nil {
		verifReach("decoded")
		verifAssert(int(n) <= len(b), "consumed no more than the buffer holds")
		for _, r := range resp.Results[:min(nc, len(resp.Results))] {
			verifAssert(r != nil, "every result with a declared cell count is present")
		}
	}
}

// VerifCellTestVectors: the repository's own TestCellFromCellBlock literal, all of its
// truncations and its corrupted-length variant, run concretely through the engine and (native
// validation) through the compiled code; the observations must coincide.
func VerifCellTestVectors() {
	cellblock := []byte{0, 0, 0, 48, 0, 0, 0, 19, 0, 0, 0, 21, 0, 4, 114, 111, 119, 55, 2, 99,
		102, 97, 0, 0, 1, 92, 13, 97, 5, 32, 4, 72, 101, 108, 108, 111, 32, 109, 121, 32, 110,
		97, 109, 101, 32, 105, 115, 32, 68, 111, 103, 46}
	c, n, err := cellFromCellBlock(cellblock)
	verifAssert(err == nil && int(n) == len(cellblock), "the literal cell decodes and is consumed whole")
	verifAssert(string(c.Row) == "row7" && string(c.Family) == "cf" && string(c.Qualifier) == "a" &&
		string(c.Value) == "Hello my name is Dog." && *c.Timestamp == 1494873081120 && *c.CellType == 4,
		"the literal cell decodes to the fields the repository's test expects")
	verifObserveBytes("row", c.Row)
	verifObserveBytes("value", c.Value)
	for i := range cellblock {
		c, n, err := cellFromCellBlock(cellblock[:i:i])
		verifAssert(err != nil && n == 0 && c == nil, "every truncation of the literal cell is an error")
	}
	cellblock[3] = 42
	_, _, err = cellFromCellBlock(cellblock)
	verifAssert(err != nil, "a wrong KeyValue length is an error")
	verifObserveBool("err", err != nil)
	verifReach("vectors")
}
